"""C15 — GP model wrappers: bookkeeping against the model; predictions against the verified exact posterior
(extracted Posterior.v) and the dense numpy form, built from the model's own kernel / mean / noise."""
import numpy as np
import common

ALLOWED_AXIOMS = set()
TRUSTED_BASE = [
    "Coq 8.16.1 kernel (coqc); no native_compute; every C15 theorem: Closed under the global context",
    "theorems: (1) the wrappers' bookkeeping (GPWrapper.v: which samples are held, which the gpytorch model is conditioned on, batching, per-objective isolation, clear/update, the train-and-freeze helpers); (2) the posterior algebra (Posterior.v: rank-one Gaussian conditioning over Q = the batch (K+S)^-1 posterior with unique solution, order / batching independence, PSD preservation, variance non-negativity and monotonicity; PosteriorTab.v: the executable table form is that posterior)",
    "gpytorch's floating-point evaluation is COMPARED, not proved: predict() vs the extracted exact posterior on the model's own covar_module / mean constant / likelihood noise values (exact dyadic inputs, index universes of <= 10 entries, a fixed number of cases per wrapper kind) at 1e-6, and vs the dense numpy form K_*^T (K + noise)^-1 (y - mean) + mean for every case (all sizes, full-matrix noise)",
    "hand-written model GPWrapper.v tied to vopy/models/gpytorch.py by correspondence on add / update / clear histories (wrapper stores vs gpytorch's own train data) — not by translation",
    "gpytorch / torch / botorch fitting are modelled (external libraries)",
]
ASSUMPTIONS = ["hyper-parameters are the library defaults or fitted values within a well-conditioned range; the correlated model is only predicted with >= 1 sample"]


def dense_posterior(gp, likelihood_noise, X, y_flat, Xs, mean_const, out_dim, interleaved):
    """closed-form conditioning with the model's own kernel; y_flat ordered like the kernel matrix"""
    import torch
    with torch.no_grad():
        Kxx = gp.covar_module(X, X).to_dense().numpy()
        Ksx = gp.covar_module(Xs, X).to_dense().numpy()
        Kss = gp.covar_module(Xs, Xs).to_dense().numpy()
    n = Kxx.shape[0]
    A = Kxx + likelihood_noise
    sol = np.linalg.solve(A, y_flat - mean_const)
    mu = mean_const + Ksx @ sol
    cov = Kss - Ksx @ np.linalg.solve(A, Ksx.T)
    return mu, cov


EXACT = []      # (driver line, [(mean, var) from predict()], tag, kind) — run in one batch at the end


def exact_cases(mdl, kind, Xs, mu, cov, tag, cap=8):
    """queue the same prediction for the extracted Posterior model (exact conditioning on the model's own
    kernel values, mean constant and noise): scalar / diagonal noise only, small index universes"""
    import torch
    Xt = torch.tensor(np.atleast_2d(Xs), dtype=torch.float64)
    N = len(Xt); m = mdl.output_dim
    var = np.diagonal(cov, axis1=-2, axis2=-1)
    try:
        with torch.no_grad():
            if kind == "list":
                for k in range(m):
                    gp = mdl.model.models[k]
                    X = mdl.train_inputs[k]; y = mdl.train_targets[k].numpy()
                    n = len(X)
                    if n + N > cap:
                        continue
                    noise = float(mdl.likelihoods[k].noise.detach().numpy().ravel()[0])
                    c = float(gp.mean_module.constant.detach().numpy())
                    Xa = torch.cat([X.reshape(n, Xt.shape[1]).to(torch.float64), Xt]) if n else Xt
                    K = gp.covar_module(Xa, Xa).to_dense().numpy().astype(float)
                    K = (K + K.T) / 2
                    line = f"gp_post {common.enc([c] * (n + N))} {common.enc(K)} {common.enc([[i, float(y[i]), noise] for i in range(n)])} {common.enc(list(range(n, n + N)))}"
                    EXACT.append((line, [(float(mu[i, k]), float(var[i, k])) for i in range(N)], tag + f" objective {k}", kind))
            else:
                gp = mdl.model
                X = mdl.train_inputs; Y = mdl.train_targets.numpy(); n = len(X)
                nz = np.asarray(mdl.noise_var.numpy(), dtype=float)
                if nz.ndim > 1 and np.abs(nz - np.diag(np.diag(nz))).max() > 0:
                    return                  # correlated task noise is not a per-observation noise: numpy oracle only
                sk = [float(nz)] * m if nz.ndim == 0 else [float(v) for v in np.diag(nz)]
                Xa = torch.cat([X.to(torch.float64), Xt]) if n else Xt
                if kind == "indep":
                    if n + N > cap:
                        return
                    Kb = gp.covar_module(Xa, Xa).to_dense().numpy().astype(float)      # (m, n+N, n+N)
                    for k in range(m):
                        K = (Kb[k] + Kb[k].T) / 2
                        line = f"gp_post {common.enc([0.0] * (n + N))} {common.enc(K)} {common.enc([[i, float(Y[i, k]), sk[k]] for i in range(n)])} {common.enc(list(range(n, n + N)))}"
                        EXACT.append((line, [(float(mu[i, k]), float(var[i, k])) for i in range(N)], tag + f" objective {k}", kind))
                else:
                    if (n + N) * m > cap + 2:
                        return
                    K = gp.covar_module(Xa, Xa).to_dense().numpy().astype(float)        # interleaved (point, task)
                    K = (K + K.T) / 2
                    obs = [[i * m + k, float(Y[i, k]), sk[k]] for i in range(n) for k in range(m)]
                    test = [(n + i) * m + k for i in range(N) for k in range(m)]
                    line = f"gp_post {common.enc([0.0] * ((n + N) * m))} {common.enc(K)} {common.enc(obs)} {common.enc(test)}"
                    EXACT.append((line, [(float(mu[i, k]), float(var[i, k])) for i in range(N) for k in range(m)], tag, kind))
    except Exception:
        return


def run_exact(ctx, viol, st):
    """predict() against the extracted exact posterior (Posterior.cond via PosteriorTab.gp_post)"""
    from fractions import Fraction
    if not EXACT:
        return
    # the extracted rational arithmetic is slow (seconds per case beyond ~8 indices): keep the smallest cases of
    # every wrapper kind, a fixed number per tier
    per_kind = 16 if ctx.quick else 150
    sel = []
    for kd in ("indep", "corr", "list"):
        ks = sorted((e for e in EXACT if e[3] == kd), key=lambda e: len(e[0]))
        # spread over sizes: take every j-th so that larger universes are represented too
        step = max(1, len(ks) // per_kind)
        sel += ks[::step][:per_kind]
    st["exact_posterior_candidates"] = len(EXACT)
    out = ctx.model([e[0] for e in sel])
    for (line, got, tag, kind), o in zip(sel, out):
        res = common.dec(o)
        st["exact_posterior_cases"] += 1
        for (gm, gv), (wm, wv) in zip(got, res):
            wm, wv = float(common.dec_q(wm)), float(common.dec_q(wv))
            st["exact_posterior_points"] += 1
            if abs(gm - wm) > 1e-6 * (1 + abs(wm)) or abs(gv - wv) > 1e-5 * (1 + abs(wv)):
                viol.append({"signature": "posterior-differs-from-held-data", "message": f"{tag}: predict() gives mean {gm:.9g}, variance {gv:.9g}; the exact posterior of the held samples (verified model, the model's own kernel / mean / noise) is mean {wm:.9g}, variance {wv:.9g}", "replay": {"kind": kind, "tag": tag, "line": line[:4000]}})
                break
    del EXACT[:]


def check_predict(mdl, kind, Xs, viol, tag):
    """compare predict(Xs) with the closed form on the data the WRAPPER holds"""
    import torch
    Xs = np.atleast_2d(Xs)
    N = len(Xs); m = mdl.output_dim
    try:
        mu, cov = mdl.predict(Xs)
    except Exception as e:
        viol.append({"signature": "predict-raised", "message": f"{tag}: predict raised {type(e).__name__}: {str(e)[:120]}", "replay": {"kind": kind, "tag": tag}})
        return
    if np.shape(mu) != (N, m) or np.shape(cov) != (N, m, m):
        viol.append({"signature": "predict-mean-shape-N1" if N == 1 else "predict-shape", "message": f"{tag}: predict on {N} points returned shapes {np.shape(mu)}, {np.shape(cov)}; expected ({N},{m}) and ({N},{m},{m})", "replay": {"kind": kind, "tag": tag}})
        return
    if (np.diagonal(cov, axis1=-2, axis2=-1) < -1e-9).any():
        viol.append({"signature": "negative-variance", "message": f"{tag}: negative posterior variance", "replay": {"kind": kind, "tag": tag}})
    Xt = torch.tensor(Xs, dtype=torch.float64)
    want_mu = np.zeros((N, m)); want_var = np.zeros((N, m))
    try:
        if kind == "list":
            for k in range(m):
                gp = mdl.model.models[k]
                X = mdl.train_inputs[k]; y = mdl.train_targets[k].numpy()
                noise = float(mdl.likelihoods[k].noise.detach().numpy().ravel()[0])
                c = float(gp.mean_module.constant.detach().numpy())
                if len(X) == 0:
                    with torch.no_grad():
                        want_mu[:, k] = c; want_var[:, k] = np.diag(gp.covar_module(Xt, Xt).to_dense().numpy())
                else:
                    mu_k, cov_k = dense_posterior(gp, noise * np.eye(len(X)), X, y, Xt, c, 1, False)
                    want_mu[:, k] = mu_k; want_var[:, k] = np.diag(cov_k)
        else:
            gp = mdl.model
            X = mdl.train_inputs; Y = mdl.train_targets.numpy()
            nz = mdl.noise_var.numpy()
            n = len(X)
            if kind == "indep" and np.ndim(nz) > 1:
                return      # full-matrix task noise couples the objectives: no simple closed form here (bookkeeping still checked)
            if kind == "indep":
                # batch-independent: one kernel per task (batch dimension)
                with torch.no_grad():
                    Kxx = gp.covar_module(X, X).to_dense().numpy()      # (m, n, n)
                    Ksx = gp.covar_module(Xt, X).to_dense().numpy()     # (m, N, n)
                    Kss = gp.covar_module(Xt, Xt).to_dense().numpy()
                for k in range(m):
                    if n == 0:
                        want_mu[:, k] = 0.0; want_var[:, k] = np.diag(Kss[k])
                    else:
                        A = Kxx[k] + float(np.ravel(nz)[0]) * np.eye(n)
                        want_mu[:, k] = Ksx[k] @ np.linalg.solve(A, Y[:, k])
                        want_var[:, k] = np.diag(Kss[k] - Ksx[k] @ np.linalg.solve(A, Ksx[k].T))
            else:
                # multitask kernel: (n*m) x (n*m), interleaved [point0 task0, point0 task1, ...]
                noise = (np.kron(np.eye(n), nz) if np.ndim(nz) > 1 else float(nz) * np.eye(n * m))
                mu_f, cov_f = dense_posterior(gp, noise, X, Y.reshape(-1), Xt, 0.0, m, True)
                want_mu = mu_f.reshape(N, m)
                # predict() evaluates every test point separately: per-point m x m blocks
                want_var = np.array([np.diag(cov_f[i * m:(i + 1) * m, i * m:(i + 1) * m]) for i in range(N)])
    except Exception as e:
        return          # closed form not available for this configuration: bookkeeping checks still apply
    got_var = np.diagonal(cov, axis1=-2, axis2=-1)
    exact_cases(mdl, kind, Xs, mu, cov, tag)
    if not (np.allclose(mu, want_mu, rtol=1e-6, atol=1e-8) and np.allclose(got_var, want_var, rtol=1e-5, atol=1e-8)):
        viol.append({"signature": "posterior-differs-from-held-data", "message": f"{tag}: predict() differs from the exact posterior of the samples the model holds (max mean error {np.abs(mu - want_mu).max():.3g}, max variance error {np.abs(got_var - want_var).max():.3g})", "replay": {"kind": kind, "tag": tag}})


def gp_train_data(mdl, kind):
    if mdl.model is None:
        return None
    if kind == "list":
        return [(g.train_inputs[0].numpy(), g.train_targets.numpy()) for g in mdl.model.models]
    return (mdl.model.train_inputs[0].numpy(), mdl.model.train_targets.numpy())


def history(ctx, kind, viol, st, directed=None):
    """random add / update / clear history; wrapper store and gpytorch data vs the model's bookkeeping"""
    from vopy.models import CorrelatedExactGPyTorchModel, IndependentExactGPyTorchModel, GPyTorchModelListExactModel
    rng = ctx.rng
    npr = np.random.RandomState(rng.randint(0, 10 ** 6))
    d = rng.choice([1, 2, 3]); m = rng.choice([2, 3])
    noise = rng.choice([0.01, 0.1]) if rng.random() < 0.8 or kind == "list" else (np.eye(m) * 0.05 + 0.01)
    if directed == 2 and kind != "list":
        noise = np.eye(m) * 0.05 + 0.01            # one directed history per multi-output wrapper uses a full task-noise matrix
    cls = {"corr": CorrelatedExactGPyTorchModel, "indep": IndependentExactGPyTorchModel, "list": GPyTorchModelListExactModel}[kind]
    mdl = cls(d, m, noise)
    held = [[] for _ in range(m)]          # model: per objective list of (x tuple, y)
    cond = None
    tag = f"{cls.__name__}(d={d}, m={m})"
    ops_done = []
    script = None
    if directed is not None or rng.random() < 0.4:
        # directed: refill after a clear with the SAME number of (different) samples per objective
        script = ["add", "update", "clear", "add", "update"] + (["add", "update"] if (rng.random() < 0.5 and directed is None) else [])
        script_n = directed if directed is not None else rng.choice([1, 2, 3])
    for step in range(len(script) if script else rng.randint(2, 10)):
        r = rng.random()
        if script:
            r = {"add": 0.1, "update": 0.6, "clear": 0.9}[script[step]]
        if r < 0.5:
            n = script_n if script else rng.choice([1, 1, 2, 3, 5])
            X = npr.rand(n, d)
            if rng.random() < 0.2 and any(held[0]):
                X[0] = np.array(held[0][0][0])                     # repeated input
            if kind == "list":
                form = rng.choice(["int", "list"]) if not script else ("all" if (directed is None or step > 0) else "rows-unsorted")
                if form == "rows-unsorted":
                    # one batch whose per-row objective indices are NOT grouped: [m-1, 0, m-1, 0, ...] + one of each
                    ks = [(m - 1) if i % 2 == 0 else 0 for i in range(4)] + list(range(m - 1, -1, -1))
                    Xr = npr.rand(len(ks), d); yr = npr.randn(len(ks))
                    mdl.add_sample(Xr, yr, ks)
                    for x, v, k in zip(Xr, yr, ks):
                        held[k].append((tuple(x), float(v)))
                    form = None
                if form is None:
                    pass
                elif form == "all":
                    for k in range(m):
                        y = npr.randn(n); Xk = X.copy()
                        mdl.add_sample(Xk, y, k)
                        held[k] += [(tuple(x), float(v)) for x, v in zip(X, y)]
                        Xk.fill(0.5); y.fill(7.0)                    # caller reuses its buffers
                elif form == "int":
                    k = rng.randrange(m); y = npr.randn(n)
                    mdl.add_sample(X, y, k)
                    held[k] += [(tuple(x), float(v)) for x, v in zip(X, y)]
                else:
                    ks = [rng.randrange(m) for _ in range(n)]; y = npr.randn(n)
                    mdl.add_sample(X, y, ks)
                    for x, v, k in zip(X, y, ks):
                        held[k].append((tuple(x), float(v)))
            else:
                Y = npr.randn(n, m)
                mdl.add_sample(X, Y)
                for k in range(m):
                    held[k] += [(tuple(x), float(v)) for x, v in zip(X, Y[:, k])]
                if script or step % 2 == 0:
                    # the arrays belong to the caller, who reuses them (directed histories, and every second add otherwise)
                    X.fill(0.5); Y.fill(7.0)
            ops_done.append("add")
        elif r < 0.8:
            if kind == "corr" and not any(held[0]) and mdl.model is None:
                continue
            mdl.update(); cond = [list(h) for h in held]; ops_done.append("update")
        else:
            mdl.clear_data(); held = [[] for _ in range(m)]; ops_done.append("clear")
        st["history_ops"] += 1
        # wrapper store == model's held
        for k in range(m):
            if kind == "list":
                wx, wy = mdl.train_inputs[k].numpy(), mdl.train_targets[k].numpy()
            else:
                wx, wy = mdl.train_inputs.numpy(), mdl.train_targets.numpy()[:, k] if len(mdl.train_targets) else np.empty(0)
            want = held[k]
            ok = len(wx) == len(want) and all(np.allclose(a, np.array(b[0])) and abs(c - b[1]) < 1e-12 for a, c, b in zip(wx, wy, want))
            if not ok:
                viol.append({"signature": "held-data-differs", "message": f"{tag}: after {ops_done} objective {k} holds {len(wx)} samples, the history says {len(want)}", "replay": {"kind": kind, "tag": tag}})
                return
        # gpytorch's own data == conditioned snapshot
        if cond is not None and ops_done[-1] == "update":
            td = gp_train_data(mdl, kind)
            for k in range(m):
                gx, gy = (td[k] if kind == "list" else (td[0], td[1][:, k] if td[1].ndim == 2 else td[1]))
                want = cond[k]
                ok = len(gx) == len(want) and all(np.allclose(a, np.array(b[0])) and abs(c - b[1]) < 1e-12 for a, c, b in zip(gx, gy, want))
                if not ok:
                    viol.append({"signature": "conditioned-data-differs", "message": f"{tag}: after {ops_done} gpytorch is conditioned on {len(gx)} samples of objective {k}, the wrapper held {len(want)} at the update", "replay": {"kind": kind, "tag": tag}})
                    return
            if kind != "corr" or any(cond[0]):
                for N in (1, 2, 4):
                    st["predictions"] += 1
                    check_predict(mdl, kind, npr.rand(N, d), viol, tag + f" after {ops_done}")
    # lengthscales / variances: one entry per objective
    if mdl.model is not None:
        try:
            ls, var = mdl.get_lengthscale_and_var()
            st["hyper_shape_checks"] += 1
            if np.shape(var) != (m,) and not (kind == "corr"):
                viol.append({"signature": "modellist-variances-length", "message": f"{tag}: get_lengthscale_and_var returned variances of shape {np.shape(var)}, expected ({m},)", "replay": {"kind": kind, "tag": tag}})
        except Exception as e:
            viol.append({"signature": "modellist-variances-length", "message": f"{tag}: get_lengthscale_and_var raised {type(e).__name__}: {str(e)[:100]}", "replay": {"kind": kind, "tag": tag}})


def order_and_monotone(ctx, kind, viol, st):
    from vopy.models import CorrelatedExactGPyTorchModel, IndependentExactGPyTorchModel, GPyTorchModelListExactModel
    rng = ctx.rng
    npr = np.random.RandomState(rng.randint(0, 10 ** 6))
    d = 2; m = 2
    cls = {"corr": CorrelatedExactGPyTorchModel, "indep": IndependentExactGPyTorchModel, "list": GPyTorchModelListExactModel}[kind]
    X = npr.rand(6, d); Y = npr.randn(6, m); Xs = npr.rand(3, d)
    def build(order, batches, upto=6):
        import torch
        torch.manual_seed(4242)           # the multitask kernel's task covariance is initialised randomly:
        mdl = cls(d, m, 0.05)             # both instances must share the same hyper-parameters
        idx = [i for i in order if i < upto]
        for b in np.array_split(np.array(idx), batches):
            if len(b) == 0:
                continue
            if kind == "list":
                for k in range(m):
                    mdl.add_sample(X[b], Y[b, k], k)
            else:
                mdl.add_sample(X[b], Y[b])
        torch.manual_seed(4242)
        mdl.update()
        return mdl.predict(Xs)
    a = build(list(range(6)), 1); perm = list(range(6)); rng.shuffle(perm)
    b = build(perm, rng.choice([2, 3, 6]))
    st["order_checks"] += 1
    if not (np.allclose(a[0], b[0], rtol=1e-6, atol=1e-8) and np.allclose(a[1], b[1], rtol=1e-5, atol=1e-8)):
        viol.append({"signature": "order-or-batching-dependence", "message": f"{cls.__name__}: predictions depend on the order / batching of the added samples", "replay": {"kind": kind}})
    c = build(list(range(6)), 1, upto=3)
    va, vc = np.diagonal(a[1], axis1=-2, axis2=-1), np.diagonal(c[1], axis1=-2, axis2=-1)
    if (va > vc + 1e-8).any():
        viol.append({"signature": "variance-grew-with-data", "message": f"{cls.__name__}: a posterior variance grew when more data were added", "replay": {"kind": kind}})


def factories(ctx, viol, st):
    """train-and-freeze helpers with 0 and >= 1 initial samples"""
    from vopy.models import (get_gpytorch_model_w_known_hyperparams, get_gpytorch_modellist_w_known_hyperparams,
                             IndependentExactGPyTorchModel, CorrelatedExactGPyTorchModel)
    from vopy.maximization_problem import ProblemFromDataset
    import vopy.datasets.dataset as dsmod, algrun
    rng = ctx.rng
    npr = np.random.RandomState(rng.randint(0, 10 ** 6))
    K = 8
    X = npr.rand(K, 2); Y = npr.randn(K, 2)
    name = algrun.make_ds(X.tolist(), Y.tolist())
    prob = ProblemFromDataset(getattr(dsmod, name)(), 0.01)
    for label, make, kind in (("independent", lambda n: get_gpytorch_model_w_known_hyperparams(IndependentExactGPyTorchModel, prob, 0.01, n, X=X, Y=Y), "indep"),
                              ("modellist", lambda n: get_gpytorch_modellist_w_known_hyperparams(prob, 0.01, n, X=X, Y=Y), "list"),
                              ("correlated", lambda n: get_gpytorch_model_w_known_hyperparams(CorrelatedExactGPyTorchModel, prob, 0.01, n, X=X, Y=Y), "corr")):
        for n0 in ((0, 2) if ctx.quick else (0, 1, 3)):
            if kind == "corr" and n0 == 0:
                continue
            mdl = make(n0)
            st["factory_checks"] += 1
            td = gp_train_data(mdl, kind)
            if kind == "list":
                held_n = sum(len(t) for t in mdl.train_inputs); cond_n = sum(len(t[0]) for t in td)
            else:
                held_n = len(mdl.train_inputs); cond_n = len(td[0])
            if held_n != n0 or cond_n != n0:
                viol.append({"signature": "factory-stale-zero-init" if n0 == 0 else "factory-stale", "message": f"{label} helper with initial_sample_cnt={n0}: wrapper holds {held_n} samples, gpytorch is conditioned on {cond_n} (it should be {n0}, not the {K} hyper-parameter training points)", "replay": {"kind": "factory", "label": label, "n0": n0}})
                continue
            check_predict(mdl, kind, X[:3], viol, f"{label} helper, initial_sample_cnt={n0}")


def run(ctx):
    viol = []
    st = {"history_ops": 0, "predictions": 0, "hyper_shape_checks": 0, "order_checks": 0, "factory_checks": 0, "exact_posterior_cases": 0, "exact_posterior_points": 0, "exact_posterior_candidates": 0}
    for kind in ("indep", "corr", "list"):
        for n_same in (1, 2, 3):
            history(ctx, kind, viol, st, directed=n_same)      # clear, then refill with the same count
        for _ in range(6 if ctx.quick else 60):
            history(ctx, kind, viol, st)
        for _ in range(2 if ctx.quick else 10):
            order_and_monotone(ctx, kind, viol, st)
    # model list with fewer inputs than objectives / more inputs than objectives
    from vopy.models import GPyTorchModelListExactModel, IndependentExactGPyTorchModel
    for d, m in ((2, 3), (4, 2)):
        mdl = GPyTorchModelListExactModel(d, m, 0.05)
        for k in range(m):
            mdl.add_sample(np.random.RandomState(d + m).rand(3, d), np.arange(3.0), k)
        mdl.update()
        st["hyper_shape_checks"] += 1
        try:
            ls, var = mdl.get_lengthscale_and_var()
            if np.shape(var) != (m,) or np.shape(ls)[0] != m:
                viol.append({"signature": "modellist-variances-length", "message": f"model list with {d} inputs / {m} objectives: variances shape {np.shape(var)}, lengthscales shape {np.shape(ls)}", "replay": {"kind": "list", "d": d, "m": m}})
        except Exception as e:
            viol.append({"signature": "modellist-variances-length", "message": f"model list with {d} inputs / {m} objectives: get_lengthscale_and_var raised {type(e).__name__}", "replay": {"kind": "list", "d": d, "m": m}})
    # reported hyper-parameters: one row / entry per objective, equal to what the kernel holds (distinct values per
    # objective and per input dimension so that a transposed or re-chunked table cannot pass), unequal d and m included
    import torch
    for d, m in ((2, 3), (3, 2), (1, 2), (2, 2), (3, 3)):
        for kind, cls in (("indep", IndependentExactGPyTorchModel), ("list", GPyTorchModelListExactModel)):
            mdl = cls(d, m, 0.05)
            rs = np.random.RandomState(10 * d + m)
            if kind == "list":
                for k in range(m):
                    mdl.add_sample(rs.rand(3, d), rs.randn(3), k)
            else:
                mdl.add_sample(rs.rand(3, d), rs.randn(3, m))
            mdl.update()
            want_ls = 0.1 * (1 + np.arange(m * d, dtype=float)).reshape(m, d)
            want_var = 0.5 + 0.25 * np.arange(m, dtype=float)
            with torch.no_grad():
                if kind == "list":
                    for k, g in enumerate(mdl.model.models):
                        g.covar_module.base_kernel.lengthscale = torch.tensor(want_ls[k]).reshape(1, d)
                        g.covar_module.outputscale = torch.tensor(want_var[k])
                else:
                    mdl.model.covar_module.base_kernel.lengthscale = torch.tensor(want_ls).reshape(m, 1, d)
                    mdl.model.covar_module.outputscale = torch.tensor(want_var)
            st["hyper_shape_checks"] += 1
            try:
                ls, var = mdl.get_lengthscale_and_var()
                ls, var = np.asarray(ls, dtype=float), np.asarray(var, dtype=float)
                ok = var.shape == (m,) and np.allclose(var, want_var, rtol=1e-6) and ls.reshape(-1).shape == (m * d,) and ls.shape[0] == m \
                    and np.allclose(ls.reshape(m, d), want_ls, rtol=1e-6)
                if not ok:
                    viol.append({"signature": "hyperparameters-differ-from-kernel", "message": f"{cls.__name__}(d={d}, m={m}): get_lengthscale_and_var returned lengthscales {ls.tolist()} (shape {ls.shape}) and variances {var.tolist()}; the kernel holds per-objective rows {want_ls.tolist()} and variances {want_var.tolist()}", "replay": {"kind": kind, "d": d, "m": m}})
            except Exception as e:
                viol.append({"signature": "hyperparameters-differ-from-kernel", "message": f"{cls.__name__}(d={d}, m={m}): get_lengthscale_and_var raised {type(e).__name__}: {str(e)[:100]}", "replay": {"kind": kind, "d": d, "m": m}})
    # models holding no samples predict their prior, for every noise form (scalar, diagonal and full task-noise matrix)
    for kind, cls in (("indep", IndependentExactGPyTorchModel), ("list", GPyTorchModelListExactModel)):
        for nz in ((0.1,) if kind == "list" else (0.1, np.eye(2) * 0.05, np.eye(2) * 0.05 + 0.01)):
            for hist in (("update",), ("add", "update", "clear", "update")):
                mdl = cls(3, 2, nz)
                rs = np.random.RandomState(5)
                for op in hist:
                    if op == "add":
                        if kind == "list":
                            for k in range(2):
                                mdl.add_sample(rs.rand(2, 3), rs.randn(2), k)
                        else:
                            mdl.add_sample(rs.rand(2, 3), rs.randn(2, 2))
                    elif op == "clear":
                        mdl.clear_data()
                    else:
                        mdl.update()
                for N in (1, 3):
                    st["predictions"] += 1
                    check_predict(mdl, kind, rs.rand(N, 3), viol, f"{cls.__name__} holding no samples (noise {'scalar' if np.ndim(nz) == 0 else 'matrix ' + str(np.asarray(nz).tolist())}) after {list(hist)}")
    # predictions taken while samples are pending (added or cleared but not yet updated) are still conditioned on
    # exactly the samples held at the last update (deterministic histories, all three wrappers, both noise forms)
    from vopy.models import CorrelatedExactGPyTorchModel
    for kind, cls in (("indep", IndependentExactGPyTorchModel), ("list", GPyTorchModelListExactModel), ("corr", CorrelatedExactGPyTorchModel)):
        for nz in ((0.1,) if kind == "list" else (0.1, np.eye(2) * 0.05 + 0.01)):
            for hist in (("add", "update", "clear"), ("add", "update", "add"), ("add", "update", "clear", "add"), ("update", "add")):
                if kind == "corr" and hist[0] == "update":
                    continue
                mdl = cls(2, 2, nz)
                rs = np.random.RandomState(15)
                Xq = rs.rand(3, 2)
                snap = None
                tagp = f"{cls.__name__} (noise {'scalar' if np.ndim(nz) == 0 else 'matrix'}) after {list(hist)} and no further update"
                for op in hist:
                    if op == "add":
                        nn = 1 + (len(hist) % 3)
                        if kind == "list":
                            for k in range(2):
                                mdl.add_sample(rs.rand(nn, 2), rs.randn(nn), k)
                        else:
                            mdl.add_sample(rs.rand(nn, 2), rs.randn(nn, 2))
                    elif op == "clear":
                        mdl.clear_data()
                    else:
                        mdl.update()
                        check_predict(mdl, kind, Xq, viol, tagp + " (at the update)")
                        snap = mdl.predict(Xq)
                st["predictions"] += 2
                try:
                    got = mdl.predict(Xq)
                    got1 = mdl.predict(Xq[:1])
                except Exception as e:
                    viol.append({"signature": "predict-raised", "message": f"{tagp}: predict raised {type(e).__name__}: {str(e)[:120]}", "replay": {"kind": kind, "tag": tagp}})
                    continue
                if not (np.allclose(got[0], snap[0], rtol=1e-9, atol=1e-10) and np.allclose(got[1], snap[1], rtol=1e-9, atol=1e-10)
                        and np.allclose(got1[0], snap[0][:1], rtol=1e-7, atol=1e-9)):
                    viol.append({"signature": "pending-samples-change-prediction", "message": f"{tagp}: predict() differs from the posterior of the samples held at the last update (max mean change {np.abs(got[0] - snap[0]).max():.3g}, max covariance change {np.abs(got[1] - snap[1]).max():.3g})", "replay": {"kind": kind, "tag": tagp}})
    factories(ctx, viol, st)
    run_exact(ctx, viol, st)
    return {"evaluations": sum(st.values()), "distinct_nontrivial": st["history_ops"] + st["predictions"], "traces": 18 if ctx.quick else 180,
            "rule": "add / update / clear histories (2-10 ops, input dims 1-3, 2-3 objectives, scalar and full-matrix noise, repeated inputs, int and per-row objective indices for the model list) on the three wrappers: after every op the wrapper's stores equal the history's bookkeeping, after every update gpytorch's own training data equal the snapshot held at the update, and predict() for N = 1, 2, 4 has shapes (N,m)/(N,m,m), non-negative variances and equals the closed-form posterior of the held data (model's own kernel/mean/noise); order / batching independence, variance monotonicity, hyper-parameter shapes, the train-and-freeze helpers with 0 and >= 1 initial samples",
            "samples": [{"kind": "indep", "ops": ["add", "update", "clear", "add", "update"]}], "violations": viol, "extra": st}


def replay(ctx, data):
    res = run(ctx)
    v = res["violations"]
    return bool(v), (v[0]["message"] if v else "no violation on replay (same seed)")
