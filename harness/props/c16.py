"""C16 — EmpiricalMeanVarModel vs the extracted state machine on random operation histories."""
import numpy as np
from fractions import Fraction
import common
from algrun import F

ALLOWED_AXIOMS = set()
TRUSTED_BASE = [
    "Coq 8.16.1 kernel (coqc); no native_compute; every C16 theorem: Closed under the global context",
    "hand-written model Empirical.v (state machine add/update/clear/flags/predict) tied to vopy/models/empirical_mean_var.py by this correspondence check (operation histories), not by translation",
    "numpy mean / var / concatenate inside the implementation are modelled; means and variances are compared at relative 1e-12 (exactly when the sample count is a power of two)",
    "extraction with ExtrOcamlBasic only + driver; OCaml 4.13.1",
]
ASSUMPTIONS = ["negative indices (Python wrap-around) are outside the model and not generated"]


def gen_history(rng):
    m = rng.choice([1, 2, 3]); count = rng.randint(1, 5)
    tm, tv = rng.random() < 0.85, rng.random() < 0.7
    noise = rng.choice([0.25, 0.5, 1.0, 2.0, 0.0])        # a zero noise variance is a legal configuration
    ops = []
    for _ in range(rng.randint(1, 40)):
        r = rng.random()
        if r < 0.6:
            k = rng.choice([1, 1, 2, 3, 5])
            kind = rng.choice(["ok", "ok", "ok", "ok", "rep", "set", "oob_eq", "oob_gt", "lenmis", "empty"])
            if kind == "set":
                idxs = rng.sample(range(count), min(k, count)); cont = "set"
            elif kind == "rep":
                idxs = [rng.randrange(count)] * k; cont = "list"
            elif kind == "oob_eq":
                idxs = [rng.randrange(count) for _ in range(k - 1)] + [count]; cont = "list"
            elif kind == "oob_gt":
                idxs = [count + rng.randint(1, 3)] + [rng.randrange(count) for _ in range(k - 1)]; cont = "list"
            elif kind == "empty":
                idxs = []; cont = "list"
            else:
                idxs = [rng.randrange(count) for _ in range(k)]; cont = "list"
            n = len(idxs) + (1 if kind == "lenmis" else 0)
            ys = [[rng.randint(-16, 16) / 4.0 for _ in range(m)] for _ in range(n)]
            ops.append(["add", idxs, ys, cont])
        elif r < 0.8:
            ops.append(["update"])
        elif r < 0.88:
            ops.append(["clear"])
        else:
            ops.append(["flags", rng.random() < 0.7, rng.random() < 0.6])
    return {"m": m, "count": count, "tm": tm, "tv": tv, "noise": noise, "ops": ops}


def run_impl(h):
    from vopy.models import EmpiricalMeanVarModel
    mdl = EmpiricalMeanVarModel(2, h["m"], h["noise"], h["count"], track_means=h["tm"], track_variances=h["tv"])
    oks = []
    enc_ops = []
    for op in h["ops"]:
        if op[0] == "add":
            idxs = op[1]
            cont = set(idxs) if op[3] == "set" else list(idxs)
            order = list(cont)                                  # iteration order the implementation will see
            Y = np.array(op[2], dtype=float).reshape(len(op[2]), h["m"]) if op[2] else np.empty((0, h["m"]))
            try:
                mdl.add_sample(cont, Y)
                oks.append(True)
            except (ValueError,) as e:
                oks.append(False)
            if h.get("reuse_buffer"):
                Y.fill(1.0e6)          # the caller reuses / overwrites its observation buffer after the call returned
            enc_ops.append([0, order, [[F(v) for v in y] for y in op[2]]])
        elif op[0] == "update":
            mdl.update(); oks.append(True); enc_ops.append([1])
        elif op[0] == "clear":
            mdl.clear_data(); oks.append(True); enc_ops.append([2])
        else:
            mdl.track_means, mdl.track_variances = op[1], op[2]; oks.append(True); enc_ops.append([3, op[1], op[2]])
    preds = []
    for d in range(h["count"]):
        X = np.array([[0.0, 0.0, float(d)]])
        try:
            mu, var = mdl.predict(X)
            preds.append(([F(x) for x in mu[0]], [F(x) for x in np.diag(var[0])], bool(np.allclose(var[0], np.diag(np.diag(var[0]))))))
        except Exception as e:
            preds.append(None)
    return oks, preds, enc_ops


def close(a, b):
    return a == b or abs(a - b) <= Fraction(1, 10 ** 12) * max(abs(a), abs(b), Fraction(1))


def run(ctx):
    rng = ctx.rng
    n = 500 if ctx.quick else 8000
    hs = [gen_history(rng) for _ in range(n)]
    for i, h in enumerate(hs):
        h["reuse_buffer"] = (i % 2 == 1)     # every second history: the caller overwrites its array after each add_sample
    lines, impls = [], []
    for h in hs:
        oks, preds, enc_ops = run_impl(h)
        impls.append((oks, preds))
        lines.append(f"emp_run {common.enc(h['m'])} {common.hexq(F(h['noise']))} {common.enc(h['count'])} {common.enc(bool(h['tm']))} {common.enc(bool(h['tv']))} {common.enc(enc_ops)} {common.enc(list(range(h['count'])))}")
    out = ctx.model(lines)
    viol = []
    stats = {"histories": n, "ops": 0, "rejected_adds": 0, "predictions_compared": 0, "predict_failures_agreed": 0}
    for h, (oks, preds), o in zip(hs, impls, out):
        mo = common.dec(o)
        moks = [bool(x) for x in mo[0]]
        stats["ops"] += len(oks); stats["rejected_adds"] += sum(1 for x in oks if not x)
        rep = {"history": common.json.loads(common.json.dumps(h, default=str))}
        if moks != oks:
            k = next(i for i, (a, b) in enumerate(zip(moks, oks)) if a != b)
            viol.append({"signature": "add-acceptance-differs", "replay": rep,
                         "message": f"operation {k} {h['ops'][k][:2]}: implementation {'accepted' if oks[k] else 'rejected'} it, the model {'accepts' if moks[k] else 'rejects'} it (design_count {h['count']})"})
            continue
        for d, (pi, pm) in enumerate(zip(preds, mo[1])):
            if pi is None or pm is None:
                if (pi is None) != (pm is None):
                    viol.append({"signature": "predict-failure-differs", "replay": rep, "message": f"predict for design {d}: implementation {'raised' if pi is None else 'answered'}, model {'fails' if pm is None else 'answers'}"})
                else:
                    stats["predict_failures_agreed"] += 1
                continue
            mu = [common.dec_q(x) for x in pm[0]]; va = [common.dec_q(x) for x in pm[1]]
            stats["predictions_compared"] += 1
            if not pi[2] or not all(close(a, b) for a, b in zip(pi[0], mu)) or not all(close(a, b) for a, b in zip(pi[1], va)):
                viol.append({"signature": "running-statistics-differ", "replay": rep,
                             "message": f"design {d}: predict() gives mean {[float(x) for x in pi[0]]} var {[float(x) for x in pi[1]]}; the running statistics of all samples added for it are mean {[float(x) for x in mu]} var {[float(x) for x in va]}"})
    return {"evaluations": n, "distinct_nontrivial": sum(1 for h in hs if sum(1 for o in h["ops"] if o[0] == "add") >= 2), "traces": n,
            "rule": "operation histories (1-40 ops: add_sample with list / set / repeated indices, malformed batches (length mismatch, index == count, index > count, empty), update, clear, flag toggles; in every second history the caller overwrites the array it passed right after each add_sample returned) on 1-5 designs, 1-3 objectives, dyadic values; acceptance of every add and predict() for every design compared with the extracted state machine; non-trivial = at least two adds",
            "samples": [common.json.loads(common.json.dumps(hs[i], default=str)) for i in range(2)],
            "violations": viol, "extra": stats}


def replay(ctx, data):
    h = data["replay"]["history"]
    for op in h["ops"]:
        if op[0] == "add":
            op[2] = [[float(v) for v in y] for y in op[2]]
    h["noise"] = float(h["noise"])
    oks, preds, enc_ops = run_impl(h)
    o = ctx.model([f"emp_run {common.enc(h['m'])} {common.hexq(F(h['noise']))} {common.enc(h['count'])} {common.enc(bool(h['tm']))} {common.enc(bool(h['tv']))} {common.enc(enc_ops)} {common.enc(list(range(h['count'])))}"])[0]
    mo = common.dec(o)
    if [bool(x) for x in mo[0]] != oks:
        return True, "add acceptance differs"
    for pi, pm in zip(preds, mo[1]):
        if (pi is None) != (pm is None):
            return True, "predict failure differs"
        if pi is not None:
            mu = [common.dec_q(x) for x in pm[0]]; va = [common.dec_q(x) for x in pm[1]]
            if not all(close(a, b) for a, b in zip(pi[0], mu)) or not all(close(a, b) for a, b in zip(pi[1], va)):
                return True, "running statistics differ"
    return False, "agrees with the model"
