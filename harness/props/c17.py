"""C17 — cone constants alpha, u*, d1 vs verified primal/dual certificates; beta closed form."""
import math, types
import numpy as np
from fractions import Fraction
import common, impl
from algrun import F

ALLOWED_AXIOMS = set(common.ALLOWED_AXIOMS_R)
TRUSTED_BASE = [
    "Coq 8.16.1 kernel (coqc); no native_compute; certificate theorems over Q: Closed under the global context; closed forms over R: standard real-number axioms",
    "the constants come out of numerical optimisers (cvxpy SOCP for alpha, scipy SLSQP for u*, d1), which are modelled: every computed value is sandwiched by certificates produced by an untrusted cvxpy solve in the harness and checked by the verified checkers alpha_upper_ok / alpha_lower_ok / dstar_lower_ok_strict / dstar_upper_ok (relative width 1e-6); the library value must lie inside within 1e-4 relative (SLSQP's observed accuracy)",
    "translator: get_alpha's SOCP and compute_u_star's SLSQP problem are recognised exactly (any other objective or constraint is rejected); ConeTheta2D.beta and get_2d_w regenerated over R",
]
ASSUMPTIONS = ["unit facet normals; cones with non-empty interior (W z >= 1 feasible)"]


def q(x, up=None):
    v = float(x)
    if up is True:
        v = v * (1 + 1e-7) + 1e-12
    elif up is False:
        v = v * (1 - 1e-7) - 1e-12
    return Fraction(int(math.ceil(v * 2 ** 40)) if up else int(math.floor(v * 2 ** 40)), 2 ** 40)


def snapv(v):
    return [Fraction(int(round(float(x) * 2 ** 44)), 2 ** 44) for x in np.asarray(v, dtype=float).ravel()]


def certs_alpha(W, n):
    import cvxpy as cp
    K, m = W.shape
    u = cp.Variable(m)
    con = [W @ u >= 0, cp.norm(u) <= 1]
    p = cp.Problem(cp.Maximize(W[n] @ u), con)
    p.solve()
    lam = np.maximum(np.asarray(con[0].dual_value, dtype=float).ravel(), 0)
    return np.asarray(u.value, dtype=float), lam


def certs_dstar(W):
    import cvxpy as cp
    K, m = W.shape
    z = cp.Variable(m)
    con = [W @ z >= 1]
    p = cp.Problem(cp.Minimize(cp.norm(z)), con)
    p.solve()
    lam = np.maximum(np.asarray(con[0].dual_value, dtype=float).ravel(), 0)
    return np.asarray(z.value, dtype=float), lam


def cones(ctx):
    from vopy.order import ComponentwiseOrder, ConeTheta2DOrder, ConeOrder3D, ConeOrder3DIceCream
    rng = ctx.rng
    out = []
    for d in (2, 3, 4):
        out.append((f"comp{d}", ComponentwiseOrder(d).ordering_cone))
    for th in ([10, 45, 60, 89, 91, 120, 150, 175] if ctx.quick else list(range(5, 180, 5))):
        out.append((f"theta{th}", ConeTheta2DOrder(th).ordering_cone))
    for t in ("acute", "right", "obtuse"):
        out.append((t + "3", ConeOrder3D(t).ordering_cone))
    for K, th in ([(3, 30), (4, 45), (6, 20), (12, 70)] if ctx.quick else [(K, th) for K in range(3, 13) for th in (10, 30, 45, 60, 80)]):
        out.append((f"ice{K}_{th}", ConeOrder3DIceCream(th, K).ordering_cone))
    from vopy.ordering_cone import OrderingCone
    # cones typed with whole numbers keep the integer dtype the user wrote (legal: OrderingCone([[1, 0], [0, 1]]))
    for nm, Wi in (("int_orth3", [[1, 0, 0], [0, 1, 0], [0, 0, 1]]), ("int_orth2", np.array([[1, 0], [0, 1]])),
                   ("int_rep3", [[1, 0, 0], [0, 1, 0], [0, 0, 1], [0, 0, 1]]), ("int_perm3", np.array([[0, 0, 1], [1, 0, 0], [0, 1, 0]])),
                   ("int_wedge4", [[1, 0, 0, 0], [0, 1, 0, 0], [0, 0, 1, 0]]), ("int_orth4", np.eye(4, dtype=int))):
        out.append((nm, OrderingCone(Wi)))
    # cones written with rows that are NOT unit vectors (legal: OrderingCone accepts any matrix; alpha_n is still the maximum
    # of w_n.u over unit cone vectors, so it scales with the row) — and the same cones with unit rows
    for nm, Wn in (("scaled_orth2", [[3.0, 0.0], [0.0, 3.0]]), ("diag2", [[2.0, 0.0], [0.0, 0.5]]), ("skew2", [[1.0, 0.0], [-1.0, 2.0]]),
                   ("skew3", [[2.0, 0.0, 0.0], [0.0, 1.0, 0.0], [1.0, 1.0, 3.0]])):
        out.append((nm, OrderingCone(np.array(Wn))))
    # the matrix handed to the constructor belongs to the caller, who may go on using its buffer (deterministic): the cone
    # built from it keeps its own facets, and its constants stay those of its own facets
    buf = np.array([[1.0, 0.0], [0.0, 1.0]])
    for th in (100.0, 40.0, 150.0):
        buf[:] = np.array(ConeTheta2DOrder(th).ordering_cone.W, dtype=float)
        oc = OrderingCone(buf)
        buf[:] = np.array(ConeTheta2DOrder(175.0 - th).ordering_cone.W, dtype=float)      # the caller refills its buffer with another cone
        out.append((f"callerbuf{int(th)}", oc))       # judged below against the matrix the cone object now shows
    for _ in range(6 if ctx.quick else 60):
        m = rng.choice([2, 3, 4]); K = rng.randint(m, m + 2)
        e = np.ones(m) / math.sqrt(m)
        rows = []
        for _k in range(K):
            v = e + np.array([rng.uniform(-1, 1) for _ in range(m)]) * rng.choice([0.3, 0.8, 1.5])
            if v @ e < 0.15:
                v = e + 0.2 * (v - e)
            rows.append(v / np.linalg.norm(v))
        out.append((f"rand{m}x{K}", OrderingCone(np.array(rows))))
    return out


def run(ctx):
    from vopy.algorithms import VOGP, VOGP_AD
    viol, lines, meta = [], [], []
    st = {"cones": 0, "alpha_checked": 0, "dstar_checked": 0, "undecided": 0, "beta_points": 0}
    for name, oc in cones(ctx):
        W = np.array(oc.W, dtype=float); K, m = W.shape
        st["cones"] += 1
        Wq = impl.frm(W)
        wq = common.enc(Wq)
        alpha = np.asarray(oc.alpha, dtype=float).ravel()
        for n in range(K):
            try:
                u, lam = certs_alpha(W, n)
            except Exception:
                st["undecided"] += 1; continue
            hi = float(np.linalg.norm(W[n] + W.T @ lam)); lo = float(W[n] @ u / max(np.linalg.norm(u), 1e-300))
            # push u slightly into the cone so that the rational copy stays feasible
            zc, _ = (None, None)
            lines.append(f"alpha_upper_ok {wq} {common.enc(n)} {common.enc(snapv(lam))} {common.hexq(q(hi, True))}")
            lines.append(f"alpha_lower_ok {wq} {common.enc(n)} {common.enc(snapv(u + 1e-9 * W.T @ np.ones(K)))} {common.hexq(q(max(lo, 0.0), False))}")
            meta.append(("alpha", name, n, float(alpha[n]), float(q(max(lo, 0.0), False)), float(q(hi, True)), W.tolist()))
        try:
            z, lam = certs_dstar(W)
            hi = float(np.linalg.norm(z)) ; v = W.T @ lam
            lo = float(lam.sum() / max(np.linalg.norm(v), 1e-300))
            lines.append(f"dstar_upper_ok {wq} {common.enc(snapv(z * (1 + 1e-9)))} {common.hexq(q(hi, True))}")
            lines.append(f"dstar_lower_ok {wq} {common.enc(snapv(lam))} {common.hexq(q(lo, False))}")
            res = []
            for cls in (VOGP, VOGP_AD):
                us, d1 = cls.compute_u_star(types.SimpleNamespace(order=types.SimpleNamespace(ordering_cone=oc), m=m))
                res.append((cls.__name__, np.asarray(us, dtype=float), float(d1)))
            meta.append(("dstar", name, res, z, float(q(lo, False)), float(q(hi, True)), W.tolist()))
        except Exception as e:
            st["undecided"] += 1
    out = ctx.model(lines)
    k = 0
    for mt in meta:
        a, b = out[k] == "1", out[k + 1] == "1"; k += 2
        if not (a and b):
            st["undecided"] += 1
            continue
        if mt[0] == "alpha":
            _, name, n, al, lo, hi, Wl = mt
            st["alpha_checked"] += 1
            tol = 1e-5 * max(1.0, hi)
            if not (lo - tol <= al <= hi + tol):
                viol.append({"signature": "alpha-outside-certified-interval", "message": f"cone {name}: library alpha_{n} = {al} is outside the certified interval [{lo}, {hi}] for max w_n.u over unit cone vectors", "replay": {"kind": "alpha", "W": Wl, "n": n}})
        else:
            _, name, res, z, lo, hi, Wl = mt
            st["dstar_checked"] += 1
            W = np.array(Wl)
            for cname, us, d1 in res:
                tol = 1e-4 * max(1.0, hi)
                bad = []
                if not (lo - tol <= d1 <= hi + tol):
                    bad.append(f"d1 = {d1} outside the certified interval [{lo}, {hi}]")
                if abs(np.linalg.norm(us) - 1) > 1e-9 or (W @ us < -1e-9).any():
                    bad.append(f"u* = {us.tolist()} is not a unit vector of the cone")
                if np.linalg.norm(us * d1 - z) > 1e-3 * max(1.0, hi):
                    bad.append(f"d1*u* = {(us * d1).tolist()} differs from the minimum-norm point {z.tolist()}")
                if bad:
                    viol.append({"signature": "ustar-d1-not-optimal", "message": f"cone {name}, {cname}.compute_u_star: " + "; ".join(bad), "replay": {"kind": "dstar", "W": Wl, "cls": cname}})
    # beta = 1/alpha for the theta cones (closed form proved in Theta2D.v) and the library's own alpha
    from vopy.ordering_cone import ConeTheta2D
    for th in ([5, 30, 45, 60, 89, 90, 120, 170] if ctx.quick else range(1, 180)):
        c = ConeTheta2D(th)
        st["beta_points"] += 1
        want = 1 / math.sin(math.radians(th)) if th < 90 else 1.0
        al = np.asarray(c.alpha, dtype=float).ravel()
        if abs(c.beta - want) > 1e-12 * want or (th != 90 and np.abs(1 / al - want).max() > 1e-4 * want):
            viol.append({"signature": "theta-beta", "message": f"ConeTheta2D({th}): beta = {c.beta}, closed form {want}, 1/alpha = {(1 / al).tolist()}", "replay": {"kind": "beta", "theta": th}})
    return {"evaluations": st["alpha_checked"] + st["dstar_checked"] + st["beta_points"] + st["undecided"], "distinct_nontrivial": st["alpha_checked"] + st["dstar_checked"],
            "rule": "bundled cones over their parameter ranges (orthants 2-4 D, theta cones, 3-D acute/right/obtuse, ice-cream K=3..12) and random unit-normal cones in 2-4 dimensions with up to m+2 facets: every alpha_n, d1 and u* of the library is compared with an interval certified by the verified checkers from primal/dual solutions of an independent solve (relative width 1e-6); beta against the closed form and against 1/alpha; non-trivial = certified comparisons (uncertified instances are counted as undecided)",
            "samples": [{"cone": "theta45"}], "violations": viol, "extra": st}


def replay(ctx, data):
    res = run(ctx)
    v = res["violations"]
    return bool(v), (v[0]["message"] if v else "no violation on replay (same seed)")
