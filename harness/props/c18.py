"""C18 — adaptive discretisation: refine_design vs the model; VOGP_AD runs monitored for the tiling /
leaf / depth invariants after every step."""
import itertools
import numpy as np
from fractions import Fraction
import common
from algrun import F

ALLOWED_AXIOMS = set()
TRUSTED_BASE = [
    "Coq 8.16.1 kernel (coqc); no native_compute; every C18 theorem: Closed under the global context",
    "hand-written model Adaptive.v of generate_child_designs (itertools.product of the halved intervals) and of VOGP_AD's node bookkeeping (any discards, gated covers, refinements with the depth guard of should_refine_design); VOGP_AD.epsiloncovering (depth gate, latch, covering nest) and the set bookkeeping of evaluate_refine are REGENERATED (Gen_algos.v) and proved to be the model's Cover / Refine steps (AdaptiveRefine.v); generate_child_designs is regenerated too (Gen_adaptive.v: halves, itertools.product, row means) and proved equal to the model's children / centre; refine_design is additionally tied by exact correspondence (cells, points, depths, inherited regions; all values dyadic; chains down to depth 12) and by monitoring real VOGP_AD runs",
    "VOGP_AD runs use a stub GP (deterministic posterior around a user-defined continuous problem; RBF kernel type; identity kernel matrix) installed through the factory helper; the V_h refinement criterion is not modelled (should_refine is an arbitrary oracle below the maximum depth in the theorems)",
    "extraction with ExtrOcamlBasic only + driver; OCaml 4.13.1",
]
ASSUMPTIONS = ["VOGP_AD's epsilon-covering step itself is hand-modelled as 'any subset of S once enabled' (its certificate logic is C03's business)"]


def refine_cases(ctx, viol, st):
    from vopy.design_space import AdaptivelyDiscretizedDesignSpace
    rng = ctx.rng
    lines, meta = [], []
    for _ in range(40 if ctx.quick else 400):
        d = rng.choice([1, 2, 3]); m = 2
        chain = rng.random() < 0.5            # keep refining a child of the last refined node: depths up to 12
        ds = AdaptivelyDiscretizedDesignSpace(d, m, delta=0.1, max_depth=12 if chain else 5)
        ds.confidence_regions[0].lower = np.array([-1.5, 0.25]); ds.confidence_regions[0].upper = np.array([2.0, 0.75])
        refined = set()
        last = None
        for step in range(rng.randint(6, 12) if chain else rng.randint(1, 4 if d == 3 else 6)):
            leaves = [i for i in range(len(ds.points)) if i not in refined]
            i = rng.choice(last) if (chain and last) else rng.choice(leaves)
            refined.add(i)
            n0 = len(ds.points)
            parent_cell = [list(map(float, iv)) for iv in ds.cells[i]]
            plo, pup = ds.confidence_regions[i].lower.copy(), ds.confidence_regions[i].upper.copy()
            pdepth = ds.point_depths[i]
            ids = ds.refine_design(i)
            last = list(ids)
            st["refinements"] += 1
            st["max_refined_depth"] = max(st.get("max_refined_depth", 0), int(pdepth) + 1)
            lines.append(f"children {common.enc([[F(a), F(b)] for a, b in parent_cell])}")
            meta.append((d, i, n0, ids, [[list(map(float, iv)) for iv in ds.cells[k]] for k in ids], [ds.points[k].tolist() for k in ids],
                         [ds.point_depths[k] for k in ids], pdepth,
                         all(np.array_equal(ds.confidence_regions[k].lower, plo) and np.array_equal(ds.confidence_regions[k].upper, pup) for k in ids),
                         len(ds.points) == len(ds.cells) == len(ds.point_depths) == len(ds.confidence_regions) == ds.cardinality))
    # the refinement oracle refuses nodes at (or beyond) the maximum depth, for every maximum depth >= 1 — before looking at the model
    for d in (1, 2, 3):
        for maxd in (1, 2, 3):
            ds = AdaptivelyDiscretizedDesignSpace(d, 2, delta=0.1, max_depth=maxd)
            node = 0
            for _ in range(maxd - 1):
                node = ds.refine_design(node)[0]
            st["refinements"] += 1
            try:
                ans = ds.should_refine_design(None, node, 1.0)
            except Exception as e:
                ans = "EXC:" + type(e).__name__
            if ans is not False:
                viol.append({"signature": "refine-beyond-max-depth", "message": f"should_refine_design on a node at depth {ds.point_depths[node]} of a {d}-D space with max_depth={maxd} answered {ans}; it must refuse (False) without consulting the model", "replay": {"kind": "refine", "d": d}})
    out = ctx.model(lines)
    for (d, i, n0, ids, cells, pts, depths, pdepth, regions_ok, arrays_ok), o in zip(meta, out):
        ref = common.dec(o)
        rc = [[[float(common.dec_q(iv[0])), float(common.dec_q(iv[1]))] for iv in ch[0]] for ch in ref]
        rp = [[float(common.dec_q(x)) for x in ch[1]] for ch in ref]
        ok = (list(ids) == list(range(n0, n0 + 2 ** d)) and cells == rc and pts == rp and all(x == pdepth + 1 for x in depths) and regions_ok and arrays_ok)
        if not ok:
            viol.append({"signature": "refine-differs", "message": f"refine_design({i}) in dimension {d}: children ids {ids}, cells {cells}, points {pts}, depths {depths} (parent depth {pdepth}), inherit region {regions_ok} — model children {rc} centres {rp}",
                         "replay": {"kind": "refine", "d": d}})


class StubGP:
    """deterministic posterior for VOGP_AD: mean = truth, std shrinking with the number of samples near x"""

    def __init__(self, problem, scale):
        self.problem = problem; self.scale = scale
        self.input_dim = problem.in_dim; self.output_dim = problem.out_dim
        self.X = np.empty((0, problem.in_dim)); self.Y = np.empty((0, problem.out_dim))
        self.train_inputs = self.X

    def add_sample(self, X, Y):
        self.X = np.vstack([self.X, np.atleast_2d(X)[:, :self.input_dim]]); self.Y = np.vstack([self.Y, np.atleast_2d(Y)])
        self.train_inputs = self.X

    def update(self):
        pass

    def train(self):
        pass

    def clear_data(self):
        self.X = np.empty((0, self.input_dim)); self.Y = np.empty((0, self.output_dim))

    def predict(self, x):
        x = np.atleast_2d(x)[:, :self.input_dim]
        mu = self.problem.evaluate(x.copy(), noisy=False)
        out = []
        for r in x:
            n = int((np.abs(self.X - r).max(axis=1) < 0.3).sum()) if len(self.X) else 0
            s = self.scale / (1.0 + n)
            out.append(np.eye(self.output_dim) * s * s)
        return mu, np.array(out)

    def evaluate_kernel(self, X=None):
        n = len(self.X) if X is None else len(X)
        return np.eye(max(n, 1) * self.output_dim)

    def get_lengthscale_and_var(self):
        return np.ones(max(self.output_dim, self.input_dim)) * 0.5, np.ones(self.output_dim)

    def get_kernel_type(self):
        return "RBF"


FORCE_DEPTH = [None]


def make_problem(rng, d):
    from vopy.maximization_problem import ContinuousProblem
    a = [rng.choice([-1.0, 1.0, 2.0]) for _ in range(d)]; b = [rng.choice([0.25, 0.5, 0.75]) for _ in range(d)]
    depth = FORCE_DEPTH[0] if FORCE_DEPTH[0] else rng.choice([2, 3, 3, 4])

    class P(ContinuousProblem):
        in_dim = d; out_dim = 2; depth_max = depth; bounds = [(0.0, 1.0)] * d

        def __init__(self, nv):
            super().__init__(nv)

        def evaluate_true(self, x):
            x = np.atleast_2d(x)
            f1 = sum(a[k] * x[:, k] for k in range(d))
            f2 = -sum((x[:, k] - b[k]) ** 2 for k in range(d))
            return np.stack([f1, f2], axis=1)
    return P(0.01), depth


def vogp_ad_runs(ctx, viol, st):
    import vopy.algorithms.vogp_ad as mod
    from vopy.algorithms import VOGP_AD
    from vopy.order import ComponentwiseOrder, ConeTheta2DOrder
    rng = ctx.rng
    nruns = 6 if ctx.quick else 60
    for run_i in range(nruns + 2):
        d = rng.choice([1, 1, 2])
        FORCE_DEPTH[0] = 1 if run_i >= nruns else None          # boundary configuration: maximum depth 1 (one with, one without extra calls)
        prob, depth = make_problem(rng, d)
        FORCE_DEPTH[0] = None
        stub = StubGP(prob, rng.choice([0.5, 1.0, 2.0]))
        old = mod.get_gpytorch_model_w_known_hyperparams
        mod.get_gpytorch_model_w_known_hyperparams = lambda *a, **k: stub
        try:
            algo = VOGP_AD(rng.choice([0.1, 0.3, 0.6]), 0.1, prob, rng.choice([ComponentwiseOrder(2), ConeTheta2DOrder(60), ConeTheta2DOrder(120)]), 0.01,
                           conf_contraction=rng.choice([4, 32, 128]))
        finally:
            mod.get_gpytorch_model_w_known_hyperparams = old
        refined, discarded = set(), set()
        extra_mode = (run_i % 2 == 1)
        info = {"d": d, "depth_max": depth, "run": run_i, "extra_evaluate_refine": extra_mode}
        for step in range(60 if ctx.quick else 200):
            finished = False
            for op in (("step", "extra") if extra_mode else ("step",)):
                # 'extra': the phases are public methods; the library's own tests call evaluate_refine() directly after a step
                if op == "extra" and (finished or not algo.S):
                    continue
                S0, P0, n0 = set(algo.S), set(algo.P), len(algo.design_space.points)
                try:
                    done = algo.run_one_step() if op == "step" else bool(algo.evaluate_refine() and False)
                except Exception as e:
                    viol.append({"signature": "vogp_ad-raised", "message": f"VOGP_AD step {step} raised {type(e).__name__}: {str(e)[:120]}", "replay": {"kind": "run", **info}})
                    break
                st["vogp_ad_steps"] += 1
                ds = algo.design_space
                S1, P1, n1 = set(algo.S), set(algo.P), len(ds.points)
                new = set(range(n0, n1))
                if new:
                    parents = [i for i in (S0 | P0) if i not in S1 and i not in P1 and i not in (S0 - S1 - P1 - new if False else set())]
                    # the refined node: the one whose children were appended
                    gone = [i for i in (S0 | P0) if i not in (S1 | P1)]
                    par = [i for i in gone if ds.point_depths[i] + 1 == ds.point_depths[n0]]
                    cand = [i for i in par if all(ds.cells[i][k][0] <= ds.cells[n0][k][0] and ds.cells[n0][k][1] <= ds.cells[i][k][1] for k in range(d))]
                    if len(new) != 2 ** d or not cand:
                        viol.append({"signature": "refine-bookkeeping", "message": f"step {step}: {len(new)} nodes appended, no refined parent found", "replay": {"kind": "run", **info}})
                    else:
                        p = cand[0]; refined.add(p)
                        same = (p in S0 and new <= S1) or (p in P0 and new <= P1)
                        if not same:
                            viol.append({"signature": "children-in-other-set", "message": f"step {step}: refined node {p} (in {'S' if p in S0 else 'P'}) but children {sorted(new)} are in S={sorted(S1 & new)} P={sorted(P1 & new)}", "replay": {"kind": "run", **info}})
                discarded |= {i for i in S0 if i not in S1 and i not in P1 and i not in refined}
                active = S1 | P1
                # leaves, depths, declared at max depth
                if active & refined:
                    viol.append({"signature": "active-not-leaf", "message": f"step {step}: active nodes {sorted(active & refined)} were refined earlier", "replay": {"kind": "run", **info}})
                bad = [i for i in P1 if ds.point_depths[i] != depth]
                if bad:
                    viol.append({"signature": "declared-not-at-max-depth", "message": f"step {step}: designs {bad} in P have depths {[ds.point_depths[i] for i in bad]} but the maximum depth is {depth}", "replay": {"kind": "run", **info}})
                if any(ds.point_depths[i] > depth for i in range(n1)):
                    viol.append({"signature": "depth-exceeds-max", "message": f"step {step}: a node is deeper than depth_max", "replay": {"kind": "run", **info}})
                # tiling: leaves = active + discarded; volumes add to 1 and interiors are pairwise disjoint
                leaves = sorted(active | discarded)
                vol = sum(np.prod([Fraction(c[1]) - Fraction(c[0]) for c in [(F(a), F(b)) for a, b in ds.cells[i]]]) for i in leaves)
                disjoint = True
                for x, y in itertools.combinations(leaves, 2):
                    if all(max(ds.cells[x][k][0], ds.cells[y][k][0]) < min(ds.cells[x][k][1], ds.cells[y][k][1]) for k in range(d)):
                        disjoint = False; break
                if vol != 1 or not disjoint:
                    viol.append({"signature": "leaves-do-not-tile", "message": f"step {step}: active+discarded leaves have total volume {float(vol)} / disjoint={disjoint}", "replay": {"kind": "run", **info}})
                if done:
                    finished = True
            if finished:
                break


def big_tree_probe(ctx, viol, st):
    """deterministic: the modeling and evaluate_refine phases (public methods) alternated until the tree has well over 257
    nodes and nodes numbered above 256 have been refined; after every call the refined node is gone from S and P, its
    children are in the set it was in, and the active leaves have pairwise disjoint cells of total volume 1 (nothing is
    discarded in this history)"""
    import random
    import vopy.algorithms.vogp_ad as mod
    from vopy.algorithms import VOGP_AD
    from vopy.order import ComponentwiseOrder
    rng = random.Random(1818)
    FORCE_DEPTH[0] = 6
    prob, depth = make_problem(rng, 2)
    FORCE_DEPTH[0] = None
    stub = StubGP(prob, 2.0)
    old = mod.get_gpytorch_model_w_known_hyperparams
    mod.get_gpytorch_model_w_known_hyperparams = lambda *a, **k: stub
    try:
        algo = VOGP_AD(0.1, 0.1, prob, ComponentwiseOrder(2), 0.01, conf_contraction=32)
    finally:
        mod.get_gpytorch_model_w_known_hyperparams = old
    ds = algo.design_space
    refined = set(); high = 0
    info = {"kind": "bigtree", "depth_max": depth}
    for it in range(400 if ctx.quick else 1200):
        algo.beta = algo.compute_beta()
        algo.modeling()
        S0, P0, n0 = set(algo.S), set(algo.P), len(ds.points)
        try:
            algo.evaluate_refine()
        except Exception as e:
            viol.append({"signature": "vogp_ad-raised", "message": f"evaluate_refine call {it} raised {type(e).__name__}: {str(e)[:120]}", "replay": info}); return
        st["vogp_ad_steps"] += 1
        S1, P1, n1 = set(algo.S), set(algo.P), len(ds.points)
        if n1 > n0:
            new = set(range(n0, n1))
            par = [i for i in (S0 | P0) if ds.point_depths[i] + 1 == ds.point_depths[n0]
                   and all(ds.cells[i][k][0] <= ds.cells[n0][k][0] and ds.cells[n0][k][1] <= ds.cells[i][k][1] for k in range(2))]
            if len(par) != 1 or len(new) != 4:
                viol.append({"signature": "refine-bookkeeping", "message": f"call {it}: {len(new)} nodes appended, parents found {par}", "replay": info}); return
            p = par[0]; refined.add(p); high += 1 if p > 256 else 0
            if p in S1 or p in P1:
                viol.append({"signature": "active-not-leaf", "message": f"call {it}: node {p} was refined into {sorted(new)} but is still in {'S' if p in S1 else 'P'} (tree of {n1} nodes)", "replay": info}); return
            if not ((p in S0 and new <= S1) or (p in P0 and new <= P1)):
                viol.append({"signature": "children-in-other-set", "message": f"call {it}: children {sorted(new)} of node {p} are not in the set it was in", "replay": info}); return
            leaves = sorted(S1 | P1)
            vol = sum(np.prod([F(b) - F(a) for a, b in ds.cells[i]]) for i in leaves)
            if vol != 1 or (S1 | P1) & refined:
                viol.append({"signature": "leaves-do-not-tile", "message": f"call {it}: active leaves have total volume {float(vol)} (tree of {n1} nodes, refined nodes still active: {sorted((S1 | P1) & refined)[:3]})", "replay": info}); return
        if high >= 6 and n1 > 330:
            break
    st["big_tree_nodes"] = len(ds.points); st["big_tree_refined_above_256"] = high


def run(ctx):
    viol = []
    st = {"refinements": 0, "vogp_ad_steps": 0}
    refine_cases(ctx, viol, st)
    vogp_ad_runs(ctx, viol, st)
    big_tree_probe(ctx, viol, st)
    return {"evaluations": st["refinements"] + st["vogp_ad_steps"], "distinct_nontrivial": st["refinements"] + st["vogp_ad_steps"], "traces": 6 if ctx.quick else 60,
            "rule": "refine_design on random leaves in dimensions 1-3 (children ids, cells, centre points, depths, inherited regions compared exactly with the extracted model); VOGP_AD runs on user-defined continuous problems (1-2 inputs, max depths 2-4, three cones, several eps / contractions) with a stub GP, after every step: active nodes are leaves, children replace the refined node in the same set, declared designs at max depth, no depth beyond max, active + discarded leaves have total volume 1 and pairwise disjoint interiors; non-trivial = every refinement / step",
            "samples": [{"kind": "refine", "d": 2}], "violations": viol, "extra": st}


def replay(ctx, data):
    res = run(ctx)
    v = res["violations"]
    return bool(v), (v[0]["message"] if v else "no violation on replay (same seed)")
