"""C19 — gaps, eps-coverage and eps-F1 vs the model and verified certificates."""
import math
import numpy as np
from fractions import Fraction
import common, gen, impl, algrun
from algrun import F

ALLOWED_AXIOMS = set()
TRUSTED_BASE = [
    "Coq 8.16.1 kernel (coqc); no native_compute; every C19 theorem: Closed under the global context",
    "hand-written model Metrics.v of get_smallmij / get_delta / the F1 arithmetic, tied by correspondence (alpha handed over as the exact rational of the library's float; results compared at relative 1e-12)",
    "eps-coverage: utils.is_covered (cvxpy SOCP, modelled) compared with verified certificates: a witness vector (pcov_witness_ok) or a weak-duality multiplier (pcov_far_ok), produced by an untrusted solve and checked exactly; instances within 1e-6 x scale of the boundary are skipped and counted",
    "hypervolume clause: Hypervolume.v (grid-cell volume of the dominated region; front >= any subset proved); botorch's Hypervolume.compute is compared with the extracted grid hypervolume through calculate_hypervolume_discrepancy_for_model on finite-valued stub problems with exact dyadic facet values; that the grid volume is the Lebesgue volume is a modelling statement",
]
ASSUMPTIONS = ["alpha_n is taken from the library (C17 checks it)"]


def cov_cert(W, vi, vj, eps):
    """untrusted: minimise |u| s.t. W u >= 0, W u >= W (vi - vj)"""
    import cvxpy as cp
    W = np.array(W, dtype=float); d = np.array(vi, dtype=float) - np.array(vj, dtype=float)
    b = np.maximum(W @ d, 0.0)
    u = cp.Variable(W.shape[1])
    con = [W @ u >= b]
    prob = cp.Problem(cp.Minimize(cp.norm(u)), con)
    try:
        prob.solve()
    except Exception:
        return None
    if u.value is None:
        return None
    nrm = float(np.linalg.norm(u.value))
    lam = np.maximum(np.asarray(con[0].dual_value, dtype=float).ravel(), 0)
    return nrm, u.value, lam


def hypervolume_cases(ctx, viol, st):
    """calculate_hypervolume_discrepancy_for_model driven by a finite-valued stub problem / model (every Sobol sample maps
    to one of K designs; integer cones, dyadic values, so all facet values are exact): exp(result) must equal the
    extracted hypervolume of the true front minus that of the true values at the predicted-front designs"""
    import gen
    from vopy.utils.evaluate import calculate_hypervolume_discrepancy_for_model
    rng = ctx.rng
    jobs = []
    for _ in range(8 if ctx.quick else 80):
        m = rng.choice([2, 2, 3])
        cones = gen.CONES_2D if m == 2 else gen.CONES_3D
        # pointed cones and pairwise distinct predicted values: with equivalent predictions the representative that
        # get_pareto_set keeps depends on the (random) order of the Sobol samples, and the true values of different
        # representatives differ — the result would not be a function of the inputs
        cn = rng.choice([c for c in cones if len(cones[c][0]) <= 3 and cones[c][1]])
        W = cones[cn][0]
        K = rng.randint(3, 7)
        Y = np.array([[rng.randint(-8, 8) / 4.0 for _ in range(m)] for _ in range(K)])
        while True:
            Yp = Y + np.array([[rng.choice([0, 0, 0.5, -0.5, 1.0, -1.5]) for _ in range(m)] for _ in range(K)])
            if len({tuple(r) for r in Yp.tolist()}) == K:
                break
        order = impl.order_from_W(W)

        class Prob:
            in_dim = 1; out_dim = m
            def evaluate(self, x, noisy=False, Y=Y, K=K):
                return Y[np.minimum((np.asarray(x)[:, 0] * K).astype(int), K - 1)]

        class Mdl:
            def predict(self, x, Yp=Yp, K=K):
                return Yp[np.minimum((np.asarray(x)[:, 0] * K).astype(int), K - 1)], None
        try:
            r = float(calculate_hypervolume_discrepancy_for_model(order, Prob(), Mdl())); got = math.exp(r)
        except AssertionError:
            got = None
        except Exception as e:
            viol.append({"signature": "hypervolume-raised", "message": f"calculate_hypervolume_discrepancy_for_model raised {type(e).__name__}: {str(e)[:100]}", "replay": {"kind": "hv", "cone": cn, "Y": Y.tolist(), "Yp": Yp.tolist()}})
            continue
        Wq = impl.frm(np.array(W, dtype=float))
        fw = [[sum(F(w) * F(v) for w, v in zip(row, y)) for row in W] for y in Y.tolist()]
        ref = [min(c) for c in zip(*fw)]
        cuts = [sorted(set(c)) for c in zip(*fw)]
        true = [int(i) for i in order.get_pareto_set(Y)]
        pred = [int(i) for i in order.get_pareto_set(Yp)]
        for tag, idx in (("front", true), ("pred", pred)):
            jobs.append(f"hv {common.enc(cuts)} {common.enc(ref)} {common.enc([fw[i] for i in idx])}")
        st["hv_jobs"].append((got, cn, Y.tolist(), Yp.tolist(), true, pred))
    out = ctx.model(jobs)
    for k, (got, cn, Yl, Ypl, true, pred) in enumerate(st.pop("hv_jobs")):
        hf, hp = common.dec_q(common.dec(out[2 * k])), common.dec_q(common.dec(out[2 * k + 1]))
        st["hypervolume"] += 1
        rep = {"kind": "hv", "cone": cn, "Y": Yl, "Yp": Ypl}
        if hp > hf:
            viol.append({"signature": "hypervolume-front-not-maximal", "message": f"model hypervolume of the predicted subset {float(hp)} exceeds the front's {float(hf)} (cone {cn})", "replay": rep})
        d = float(hf - hp)
        if got is None:
            if d > 1e-4 * (1 + 1e-9):
                viol.append({"signature": "hypervolume-differs", "message": f"the library says the hypervolumes are the same but front - predicted = {d} (cone {cn}, values {Yl}, predicted {Ypl})", "replay": rep})
        elif abs(got - d) > 1e-9 * max(1.0, d):
            viol.append({"signature": "hypervolume-differs", "message": f"library hypervolume discrepancy {got}, definition {d} (cone {cn}, values {Yl}, predicted {Ypl}, front {true}, predicted front {pred})", "replay": rep})


def run(ctx):
    from vopy.utils import get_smallmij, get_delta, is_covered, get_uncovered_size
    from vopy.utils.evaluate import calculate_epsilonF1_score
    rng = ctx.rng
    viol, lines, meta = [], [], []
    orders = impl.bundled_orders()
    st = {"smallm": 0, "delta": 0, "covered_true": 0, "covered_false": 0, "covered_skipped": 0, "f1": 0, "hypervolume": 0, "hv_jobs": []}
    n = 120 if ctx.quick else 1500
    for _ in range(n):
        name, order = rng.choice(orders)
        W = order.ordering_cone.W; alpha = order.ordering_cone.alpha
        m = W.shape[1]
        K = rng.randint(2, 8)
        mu = np.array([[rng.randint(-16, 16) / 8.0 for _ in range(m)] for _ in range(K)])
        if rng.random() < 0.3:
            mu[1] = mu[0] + np.array([rng.choice([0.0, 0.0625, -0.0625]) for _ in range(m)])
        Wq, aq = impl.frm(W), impl.frv(alpha.flatten())
        i, j = rng.randrange(K), rng.randrange(K)
        r = float(get_smallmij(mu[i].copy(), mu[j].copy(), W, alpha))
        lines.append(f"smallm {common.enc(Wq)} {common.enc(aq)} {common.enc(impl.frv(mu[i]))} {common.enc(impl.frv(mu[j]))}")
        meta.append(("smallm", r, (name, mu.tolist(), i, j)))
        dl = get_delta(mu.copy(), W, alpha).flatten()
        if rng.random() < 0.25:
            # whole-number value sets are legal in any numeric dtype: the gaps must not depend on how the array is stored
            mu = np.round(mu * 2)
            dl = get_delta(mu.astype(np.int64), W, alpha).flatten()
            r = float(get_smallmij(mu[i].astype(np.int64), mu[j].astype(np.int64), W, alpha))
            lines[-1] = f"smallm {common.enc(Wq)} {common.enc(aq)} {common.enc(impl.frv(mu[i]))} {common.enc(impl.frv(mu[j]))}"
            meta[-1] = ("smallm", r, (name + " int64", mu.tolist(), i, j))
            name = name + " int64"
        for k in range(K):
            lines.append(f"delta {common.enc(Wq)} {common.enc(aq)} {common.enc(impl.frm(mu))} {common.enc(k)}")
            meta.append(("delta", float(dl[k]), (name, mu.tolist(), k)))
    out = ctx.model(lines)
    for (kind, r, info), o in zip(meta, out):
        q = common.dec_q(common.dec(o))
        st[kind] += 1
        if abs(F(r) - q) > Fraction(1, 10 ** 11) * max(1, abs(q)):
            viol.append({"signature": f"{kind}-differs", "message": f"{kind}: library {r}, definition {float(q)} for {info}", "replay": {"kind": kind, "info": info}})
    # eps-coverage
    lines, meta = [], []
    for _ in range(150 if ctx.quick else 2000):
        name, order = rng.choice(orders)
        W = order.ordering_cone.W; m = W.shape[1]
        vi = np.array([rng.randint(-8, 8) / 8.0 for _ in range(m)])
        kind = rng.choice(["near", "near", "far", "same", "within", "within"])
        eps = rng.choice([0.0, 0.05, 0.1, 0.25, 0.5])
        if kind == "same":
            vj = vi.copy()
        elif kind == "within":
            # closer than eps in Euclidean distance, in a random direction: covered only if the part of the
            # difference outside the cone can be lifted by a CONE vector of norm <= eps
            eps = rng.choice([0.05, 0.1, 0.25, 0.5])
            dvec = np.array([rng.gauss(0, 1) for _ in range(m)])
            dvec = dvec / max(np.linalg.norm(dvec), 1e-9) * eps * rng.choice([0.5, 0.75, 0.9, 0.97])
            vj = vi + np.round(dvec * 2 ** 20) / 2 ** 20
        elif kind == "near":
            vj = vi + np.array([rng.randint(-3, 3) / 16.0 for _ in range(m)])
        else:
            vj = np.array([rng.randint(-8, 8) / 8.0 for _ in range(m)])
        try:
            r = bool(is_covered(vi.copy(), vj.copy(), eps, W))
        except Exception as e:
            r = "EXC:" + type(e).__name__
        cert = cov_cert(W, vi, vj, eps)
        Wq = impl.frm(W)
        if cert is None or abs(cert[0] - eps) < 1e-6 * max(1.0, eps):
            st["covered_skipped"] += 1
            continue
        nrm, u, lam = cert
        base = f"{common.enc(Wq)} {common.enc(impl.frv(vi))} {common.enc(impl.frv(vj))} {common.hexq(F(eps))}"
        if nrm < eps:
            # shrink nothing: snap u to a grid, keeping feasibility margin; add a tiny cone-interior push if available
            lines.append(f"pcov_witness_ok {base} {common.enc([Fraction(int(round(float(x) * 2 ** 40)), 2 ** 40) for x in u])}")
            meta.append((True, r, (name, vi.tolist(), vj.tolist(), eps)))
        else:
            lines.append(f"pcov_far_ok {base} {common.enc([Fraction(int(round(float(x) * 2 ** 40)), 2 ** 40) for x in lam])}")
            meta.append((False, r, (name, vi.tolist(), vj.tolist(), eps)))
    out = ctx.model(lines)
    for (want, r, info), o in zip(meta, out):
        if o != "1":
            st["covered_skipped"] += 1
            continue
        st["covered_true" if want else "covered_false"] += 1
        if r != want:
            viol.append({"signature": "is_covered-differs", "message": f"utils.is_covered returned {r}; a verified {'witness' if want else 'duality multiplier'} shows it is {want}: cone {info[0]}, vi={info[1]}, vj={info[2]}, eps={info[3]}", "replay": {"kind": "cover", "info": info}})
    # F1 on injected datasets: recompute from the library's own components and from the definition
    import vopy.datasets.dataset as dsmod
    # the SAME value set is scored under two different cones of its dimension, one after the other in this
    # process (a score must depend on the cone it is asked about, not on what was scored before)
    f1_jobs = []
    for _ in range(13 if ctx.quick else 150):
        m = rng.choice([2, 2, 3])
        K = rng.randint(3, 9)
        Y = [[rng.randint(-16, 16) / 8.0 for _ in range(m)] for _ in range(K)]
        dname = algrun.make_ds([[k / 16.0, 0.5] for k in range(K)], Y)
        ds = getattr(dsmod, dname)()
        same_dim = [o for o in orders if o[1].ordering_cone.W.shape[1] == m]
        for name, order in rng.sample(same_dim, 2):
            f1_jobs.append((name, order, Y, ds, K, m))
    # deterministic tie cases: two predicted designs with IDENTICAL objective vectors are the only ones that eps-cover a
    # missed Pareto design (all designs of one value are as good as each other: none of them may be dropped)
    f1_jobs = [j + (None,) for j in f1_jobs]
    for m, Yt, predt in ((2, [[1.0, 0.0], [1.0, 0.0], [0.0, 1.0], [0.875, 0.0625]], [0, 1, 2]),
                         (2, [[0.0, 1.0], [0.5, 0.5], [0.5, 0.5], [0.5625, 0.375], [1.0, 0.0]], [2, 1]),
                         (3, [[1.0, 0.0, 0.0], [1.0, 0.0, 0.0], [0.0, 1.0, 0.0], [0.0, 0.0, 1.0], [0.9375, 0.0625, 0.0]], [1, 0, 2, 3]),
                         (2, [[0.25, 0.25], [0.25, 0.25], [0.25, 0.25], [0.3125, 0.125]], [0, 1, 2])):
        dname = algrun.make_ds([[k / 16.0, 0.5] for k in range(len(Yt))], Yt)
        ds = getattr(dsmod, dname)()
        for name, order in [o for o in orders if o[1].ordering_cone.W.shape[1] == m][:3]:
            f1_jobs.append((name, order, Yt, ds, len(Yt), m, (predt, 0.25)))
    for name, order, Y, ds, K, m, forced in f1_jobs:
        W = order.ordering_cone.W
        true = [int(x) for x in order.get_pareto_set(np.array(Y))]
        mode = rng.choice(["exact", "subset", "superset", "random", "shuffled"]) if forced is None else "forced"
        if mode == "forced":
            pred = list(forced[0])
        elif mode == "exact":
            pred = list(true)
        elif mode == "subset":
            pred = true[:max(1, len(true) - 1)]
        elif mode == "superset":
            pred = sorted(set(true) | {rng.randrange(K)})
        elif mode == "shuffled":
            pred = list(true); rng.shuffle(pred)
        else:
            pred = rng.sample(range(K), rng.randint(1, K))
        eps = rng.choice([0.0, 0.1, 0.25, 1.0]) if forced is None else forced[1]
        f = float(calculate_epsilonF1_score(ds, order, np.array(true), list(pred), eps))
        f2 = float(calculate_epsilonF1_score(ds, order, np.array(true), list(reversed(pred)), eps))
        fbig = float(calculate_epsilonF1_score(ds, order, np.array(true), list(pred), eps + 0.5))
        st["f1"] += 1
        info = (name, Y, true, pred, eps)
        if not (0.0 <= f <= 1.0) or f != f2:
            viol.append({"signature": "f1-range-or-order", "message": f"F1={f} (reversed prediction {f2}) for {info}", "replay": {"kind": "f1", "info": info}})
        if mode in ("exact", "shuffled") and f != 1.0:
            viol.append({"signature": "f1-perfect", "message": f"prediction equal to the true Pareto set scored {f}: {info}", "replay": {"kind": "f1", "info": info}})
        if fbig < f - 1e-12:
            viol.append({"signature": "f1-not-monotone-in-eps", "message": f"F1 decreased from {f} to {fbig} when eps grew by 0.5: {info}", "replay": {"kind": "f1", "info": info}})
        # recompute from definition with the library's gap values and verified coverage where decidable
        dl = get_delta(np.array(Y), W, order.ordering_cone.alpha).flatten()
        tp = sum(1 for p in pred if dl[p] <= eps)
        missed = sorted(set(true) - set(pred))
        unc = int(get_uncovered_size(np.array(Y)[missed].reshape(len(missed), m), np.array(Y)[pred], eps, W))
        # the uncovered count is, by definition, the number of missed designs that no predicted design eps-covers
        # (pairwise is_covered is itself checked against certificates above)
        unc_def = sum(1 for i in missed if not any(is_covered(np.array(Y[i]), np.array(Y[j]), eps, W) for j in pred))
        if unc != unc_def:
            viol.append({"signature": "uncovered-count", "message": f"get_uncovered_size={unc} but {unc_def} of the missed designs {missed} are eps-covered by no predicted design (pairwise is_covered): {info}", "replay": {"kind": "f1", "info": info}})
        want = 2 * tp / (2 * tp + (len(pred) - tp) + unc) if (2 * tp + (len(pred) - tp) + unc) else float("nan")
        if not (np.isnan(want) and np.isnan(f)) and abs(f - want) > 1e-12:
            viol.append({"signature": "f1-formula", "message": f"F1={f} but 2tp/(2tp+fp+uncovered)={want} with tp={tp}, |pred|={len(pred)}, uncovered={unc}: {info}", "replay": {"kind": "f1", "info": info}})
    hypervolume_cases(ctx, viol, st)
    total = sum(st.values())
    return {"evaluations": total, "distinct_nontrivial": st["smallm"] + st["covered_true"] + st["covered_false"] + st["f1"],
            "rule": "value sets (2-9 points, dyadic, near-duplicates) x the 12 bundled cones: get_smallmij / get_delta against the extracted definitions (exact alpha rationals, 1e-11 relative); utils.is_covered against verified certificates (witness / weak-duality multiplier) for near / far / identical pairs and eps in {0,...,0.5}; calculate_epsilonF1_score: range, order independence, perfect prediction, monotonicity in eps, and the 2tp/(2tp+fp+unc) formula recomputed; calculate_hypervolume_discrepancy_for_model on finite-valued stub problems against the extracted grid hypervolume (front minus predicted subset, and front >= subset); non-trivial = compared cases",
            "samples": [{"cone": "theta45", "vi": [1.0, 1.0], "vj": [1.06, 0.94], "eps": 0.1}], "violations": viol, "extra": st}


def replay(ctx, data):
    res = run(ctx)
    v = res["violations"]
    return bool(v), (v[0]["message"] if v else "no violation on replay (same seed)")
