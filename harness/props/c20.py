"""C20 — problems return the nearest design's value plus configured noise; data scaled."""
import numpy as np
from fractions import Fraction
import common, algrun
from algrun import F

ALLOWED_AXIOMS = set()
TRUSTED_BASE = [
    "Coq 8.16.1 kernel (coqc); no native_compute; every C20 theorem: Closed under the global context",
    "translator: get_noisy_evaluations_chol (which factor multiplies the draw), normalize / unnormalize entry formulas, DecoupledEvaluationProblem.evaluate selection, and the aliasing of BraninCurrin._currin's in-place write regenerated into coq/gen/Gen_problem.v",
    "hand-written nearest-design model (first index of the minimal squared distance); sklearn's euclidean_distances, MinMaxScaler and StandardScaler are modelled and checked on the bundled data (exhaustively) and on exact grids",
    "the Gaussian law of the draw itself (np.random.normal) is not verified: the draw is recorded and the affine map y = f + L g is checked exactly; a sample-moment test is reported as a test only",
]
ASSUMPTIONS = ["off-grid queries are generated at least 2^-10 away from a tie between two designs (float distances are not exact)"]


def lookups(ctx, viol, st):
    from vopy.maximization_problem import ProblemFromDataset, DecoupledEvaluationProblem
    import vopy.datasets.dataset as dsmod
    rng = ctx.rng
    for _ in range(60 if ctx.quick else 600):
        d = rng.choice([1, 2, 3]); m = rng.choice([2, 3]); K = rng.randint(1, 12 if d > 1 else 8)
        Xs = set()
        while len(Xs) < K:
            Xs.add(tuple(rng.randint(0, 8) / 8.0 for _ in range(d)))
        X = [list(x) for x in Xs]
        Y = [[rng.randint(-16, 16) / 8.0 for _ in range(m)] for _ in range(K)]
        name = algrun.make_ds(X, Y)
        ds = getattr(dsmod, name)()
        prob = ProblemFromDataset(ds, 0.01)
        # queries: on grid, off grid (nearest unique by a margin), single point and batches
        qs = []
        for _ in range(8):
            u = rng.random()
            if u < 0.4:
                qs.append(list(rng.choice(X)))
            elif u < 0.7:
                qs.append([rng.randint(0, 64) / 64.0 + 1 / 1024.0 for _ in range(d)])
            else:
                # outside the unit cube (any point may be queried; the nearest design is still defined)
                qs.append([rng.randint(-128, 192) / 64.0 + 1 / 1024.0 for _ in range(d)])
        Xq = [[F(v) for v in x] for x in X]
        def want(q):
            dist = [sum((F(a) - b) ** 2 for a, b in zip(q, x)) for x in Xq]
            mn = min(dist); idx = [i for i, v in enumerate(dist) if v == mn]
            srt = sorted(dist)
            margin = (srt[1] - srt[0]) if len(srt) > 1 else Fraction(1)
            return idx[0], margin
        for q in qs:
            before = np.array([q]); arg = before.copy()
            y = prob.evaluate(arg, noisy=False)
            st["lookups"] += 1
            i, margin = want(q)
            if not np.array_equal(arg, before):
                viol.append({"signature": "evaluate-mutates-input", "message": "ProblemFromDataset.evaluate modified its argument", "replay": {"kind": "lookup", "X": X, "q": q}})
            if margin >= Fraction(1, 2 ** 12) or margin == 0:
                if margin == 0:
                    ok = any(np.array_equal(y[0], np.array(Y[j])) for j in range(K) if Xq[j] == Xq[i])
                else:
                    ok = np.array_equal(y[0], np.array(Y[i]))
                if y.shape != (1, m) or not ok:
                    viol.append({"signature": "nearest-design-value", "message": f"evaluate({q}, noisy=False) returned {y.tolist()}, nearest design {i} has {Y[i]}", "replay": {"kind": "lookup", "X": X, "Y": Y, "q": q}})
        # the caller refills ONE preallocated query buffer in place between calls: every call answers for the
        # buffer's current contents (deterministic choice of rows: rotation of the design list)
        nb = min(3, K)
        buf = np.zeros((nb, d))
        for rnd in range(4):
            rows = [(rnd * 2 + j * 3) % K for j in range(nb)]
            buf[:] = np.array([X[r] for r in rows])
            yb = prob.evaluate(buf, noisy=False)
            st["lookups"] += 1
            if yb.shape != (nb, m) or not np.array_equal(yb, np.array([Y[r] for r in rows])):
                viol.append({"signature": "nearest-design-value", "message": f"call {rnd + 1} on a refilled query buffer holding designs {rows} returned {np.asarray(yb).tolist()}, their objective vectors are {[Y[r] for r in rows]}", "replay": {"kind": "lookup", "X": X, "Y": Y, "buffer_rounds": rnd + 1}})
                break
        # 1-D single point (on the grid, or far outside the cube)
        q = list(rng.choice(X)) if rng.random() < 0.5 else [rng.randint(-128, 192) / 64.0 + 1 / 1024.0 for _ in range(d)]
        arg1 = np.array(q); keep1 = arg1.copy()
        y = prob.evaluate(arg1, noisy=False)
        if not np.array_equal(arg1, keep1):
            viol.append({"signature": "evaluate-mutates-input", "message": "ProblemFromDataset.evaluate modified its 1-D argument", "replay": {"kind": "lookup", "X": X, "q": q, "one_d": True}})
        i1, margin1 = want(q)
        if margin1 >= Fraction(1, 2 ** 12) and y.shape == (1, m) and not np.array_equal(y[0], np.array(Y[i1])):
            viol.append({"signature": "nearest-design-value", "message": f"evaluate({q}, noisy=False) returned {y.tolist()}, nearest design {i1} has {Y[i1]}", "replay": {"kind": "lookup", "X": X, "Y": Y, "q": q}})
        if y.shape != (1, m):
            viol.append({"signature": "single-point-shape", "message": f"evaluate of a 1-D point returned shape {y.shape}", "replay": {"kind": "lookup", "X": X, "q": q}})
        # decoupled forms
        dp = DecoupledEvaluationProblem(prob)
        B = np.array([rng.choice(X) for _ in range(4)])
        full = prob.evaluate(B, noisy=False)
        st["decoupled"] += 3
        if not np.array_equal(dp.evaluate(B, None, noisy=False), full):
            viol.append({"signature": "decoupled-none", "message": "evaluation_index=None is not the full evaluation", "replay": {"kind": "dec"}})
        k = rng.randrange(m)
        if not np.array_equal(dp.evaluate(B, k, noisy=False), full[:, k]):
            viol.append({"signature": "decoupled-int", "message": f"evaluation_index={k} is not column {k}", "replay": {"kind": "dec"}})
        ks = [rng.randrange(m) for _ in range(4)]
        if not np.array_equal(dp.evaluate(B, ks, noisy=False), full[np.arange(4), ks]):
            viol.append({"signature": "decoupled-list", "message": f"evaluation_index={ks} is not the per-row selection", "replay": {"kind": "dec"}})
        try:
            dp.evaluate(B, [0, 1], noisy=False)
            viol.append({"signature": "decoupled-length-guard", "message": "evaluation_index of the wrong length accepted", "replay": {"kind": "dec"}})
        except ValueError:
            pass


def large_dataset(ctx, viol, st):
    """more than a thousand designs: every design is its own nearest design, batches of every size"""
    from vopy.maximization_problem import ProblemFromDataset
    import vopy.datasets.dataset as dsmod
    from vopy.utils.utils import get_closest_indices_from_points
    for K in ((1300,) if ctx.quick else (1025, 1300, 2500)):
        X = [[k / 4096.0, ((k * 7) % 64) / 64.0] for k in range(K)]
        Y = [[k / 8.0, -(k % 13) / 4.0] for k in range(K)]
        prob = ProblemFromDataset(getattr(dsmod, algrun.make_ds(X, Y))(), 0.01)
        y = prob.evaluate(np.array(X), noisy=False)
        st["lookups"] += K
        bad = [k for k in range(K) if not np.array_equal(y[k], np.array(Y[k]))]
        idx = [int(i) for i in get_closest_indices_from_points(np.array(X)[::-1], np.array(X), squared=True)]
        if idx != list(range(K))[::-1] and not bad:
            bad = [k for k in range(K) if idx[K - 1 - k] != k]
        if bad:
            viol.append({"signature": "nearest-design-value", "message": f"dataset of {K} designs: evaluating design {bad[0]} itself does not return its own objective vector ({len(bad)} designs affected)", "replay": {"kind": "large", "K": K}})


def noise(ctx, viol, st):
    """evaluate() == f + g L^T for the recorded draw g, with diagonal and correlated Cholesky factors"""
    from vopy.maximization_problem import ProblemFromDataset
    import vopy.utils.utils as U
    import vopy.datasets.dataset as dsmod
    rng = ctx.rng
    orig = np.random.normal
    for _ in range(40 if ctx.quick else 400):
        m = rng.choice([2, 3]); K = rng.randint(2, 6)
        X = [[k / 8.0, 0.25] for k in range(K)]
        Y = [[rng.randint(-16, 16) / 8.0 for _ in range(m)] for _ in range(K)]
        name = algrun.make_ds(X, Y)
        nv = rng.choice([0.25, 0.01, 1.0, 4.0, 100.0])
        prob = ProblemFromDataset(getattr(dsmod, name)(), nv)
        # the configured variance: with unit draws g the noise is g L^T, whose covariance L L^T must be noise_var * I
        Lc = np.array(prob.noise_cholesky, dtype=float)
        st["noise_factor_checks"] = st.get("noise_factor_checks", 0) + 1
        if Lc.shape != (m, m) or not np.allclose(Lc @ Lc.T, nv * np.eye(m), rtol=1e-12, atol=0):
            viol.append({"signature": "noise-covariance-not-configured-variance", "message": f"ProblemFromDataset(noise_var={nv}): the noise factor is {Lc.tolist()}, so the noise covariance is {(Lc @ Lc.T).tolist()} instead of {nv} * I", "replay": {"kind": "noise", "noise_var": nv}})
        kind = rng.choice(["diag", "corr"])
        if kind == "corr":
            L = np.tril(np.array([[rng.randint(-4, 4) / 2.0 for _ in range(m)] for _ in range(m)]))
            for i in range(m):
                L[i, i] = rng.choice([0.5, 1.0, 2.0])
            prob.noise_cholesky = L
        L = np.array(prob.noise_cholesky, dtype=float)
        B = np.array([rng.choice(X) for _ in range(rng.randint(1, 5))])
        if _ % 4 == 0:
            B = np.array([X[0], X[K - 1], X[0], [X[0][0] + 1.0 / 64, X[0][1]]])     # rows sharing one nearest design: each row has its OWN draw
        draws = []
        def fake(*a, size=None, **k):
            g = np.array([[rng.randint(-8, 8) / 4.0 for _ in range(size[1])] for _ in range(size[0])])
            draws.append(g); return g
        np.random.normal = fake
        try:
            y = prob.evaluate(B.copy(), noisy=True)
        finally:
            np.random.normal = orig
        f = prob.evaluate(B.copy(), noisy=False)
        st["noisy_evaluations"] += 1
        if len(draws) != 1 or draws[0].shape != f.shape:
            viol.append({"signature": "noise-not-one-draw-per-row", "message": f"noisy evaluate of a batch of {len(B)} rows (nearest designs may repeat) drew standard normals of shape(s) {[d.shape for d in draws]} instead of one row per query row {f.shape}: rows would share their noise", "replay": {"kind": "noise", "B": B.tolist()}})
            continue
        want = f + draws[0] @ L.T
        if y.shape != f.shape or not np.allclose(y, want, rtol=0, atol=1e-12):
            viol.append({"signature": "noise-cholesky-transposed" if np.allclose(y, f + draws[0] @ L, atol=1e-12) else "noise-not-affine",
                         "message": f"noisy evaluate != f + g L^T for L={L.tolist()} ({kind}); covariance of the noise would be {'L^T L' if np.allclose(y, f + draws[0] @ L, atol=1e-12) else 'something else'} instead of L L^T",
                         "replay": {"kind": "noise", "L": L.tolist()}})


def continuous(ctx, viol, st):
    from vopy.maximization_problem import BraninCurrin, get_continuous_problem
    rng = ctx.rng
    for nv in (0.01, 1.0, 9.0):
        pc = BraninCurrin(nv)
        Lc = np.array(pc.noise_cholesky, dtype=float)
        st["noise_factor_checks"] = st.get("noise_factor_checks", 0) + 1
        if Lc.shape != (2, 2) or not np.allclose(Lc @ Lc.T, nv * np.eye(2), rtol=1e-12, atol=0):
            viol.append({"signature": "noise-covariance-not-configured-variance", "message": f"BraninCurrin(noise_var={nv}): the noise factor is {Lc.tolist()}, so the noise covariance is {(Lc @ Lc.T).tolist()} instead of {nv} * I", "replay": {"kind": "currin", "noise_var": nv}})
    p = BraninCurrin(0.01)
    for _ in range(30 if ctx.quick else 300):
        n = rng.randint(1, 5)
        x = np.array([[rng.choice([0.0, 0.25, 0.5, 1.0, rng.random()]), rng.choice([0.0, 0.0, 0.5, 1.0, rng.random()])] for _ in range(n)])
        before = x.copy()
        y = p.evaluate(x, noisy=False)
        y2 = p.evaluate(x, noisy=False)
        st["continuous_evaluations"] += 1
        if not np.array_equal(x, before):
            viol.append({"signature": "evaluate-mutates-input", "message": f"BraninCurrin.evaluate changed its argument from {before.tolist()} to {x.tolist()}", "replay": {"kind": "currin", "x": before.tolist()}})
        if y.shape != (n, 2) or not np.array_equal(y, y2):
            viol.append({"signature": "continuous-evaluate", "message": "BraninCurrin.evaluate not deterministic / wrong shape", "replay": {"kind": "currin", "x": before.tolist()}})


def datasets(ctx, viol, st):
    from vopy.datasets import get_dataset_instance
    for name, (n, din, dout) in {"Test": (32, 4, 2), "SNW": (206, 3, 2), "DiskBrake": (128, 4, 2), "VehicleSafety": (500, 5, 3)}.items():
        d = get_dataset_instance(name)
        st["datasets"] += 1
        ok = (d.in_data.shape == (n, din) and d.out_data.shape == (n, dout) and d.in_dim == din and d.out_dim == dout
              and np.all(d.in_data >= -1e-12) and np.all(d.in_data <= 1 + 1e-12)
              and np.allclose(d.in_data.min(axis=0), 0, atol=1e-12) and np.allclose(d.in_data.max(axis=0), 1, atol=1e-12)
              and np.allclose(d.out_data.mean(axis=0), 0, atol=1e-9) and np.allclose(d.out_data.var(axis=0), 1, atol=1e-9))
        if not ok:
            viol.append({"signature": "dataset-scaling", "message": f"dataset {name}: sizes / [0,1] inputs / standardised outputs violated", "replay": {"kind": "dataset", "name": name}})


def normalise(ctx, viol, st):
    from vopy.utils import normalize, unnormalize
    rng = ctx.rng
    for _ in range(60 if ctx.quick else 600):
        c = rng.randint(1, 4); n = rng.randint(1, 6)
        bounds = []
        for _ in range(c):
            lo = rng.randint(-8, 8) / 2.0; bounds.append((lo, lo + rng.choice([0.5, 1.0, 2.0, 4.0])))
        data = np.array([[rng.randint(-16, 16) / 4.0 for _ in range(c)] for _ in range(n)])
        keep = data.copy()
        a = unnormalize(normalize(data, bounds), bounds); b = normalize(unnormalize(data, bounds), bounds)
        st["normalise_roundtrips"] += 1
        lo_ = np.array([x[0] for x in bounds]); hi_ = np.array([x[1] for x in bounds])
        if not np.array_equal(normalize(data.copy(), bounds), (keep - lo_) / (hi_ - lo_)) or not np.array_equal(unnormalize(data.copy(), bounds), keep * (hi_ - lo_) + lo_):
            viol.append({"signature": "normalise-formula", "message": f"normalize / unnormalize are not (x - lower) / (upper - lower) and its inverse on {keep.tolist()} with bounds {bounds}", "replay": {"kind": "norm", "bounds": bounds, "data": keep.tolist()}})
        if not (np.array_equal(a, keep) and np.array_equal(b, keep) and np.array_equal(data, keep)):
            viol.append({"signature": "normalise-roundtrip", "message": f"normalize/unnormalize are not mutual inverses on {keep.tolist()} with bounds {bounds}", "replay": {"kind": "norm", "bounds": bounds, "data": keep.tolist()}})


def run(ctx):
    viol = []
    st = {"lookups": 0, "decoupled": 0, "noisy_evaluations": 0, "continuous_evaluations": 0, "datasets": 0, "normalise_roundtrips": 0}
    lookups(ctx, viol, st); large_dataset(ctx, viol, st); noise(ctx, viol, st); continuous(ctx, viol, st); datasets(ctx, viol, st); normalise(ctx, viol, st)
    n = sum(st.values())
    return {"evaluations": n, "distinct_nontrivial": st["lookups"] + st["noisy_evaluations"],
            "rule": "injected exact datasets (1-12 designs, 1-3 inputs): on-grid and off-grid queries (nearest unique by a margin), single points and batches, one preallocated query buffer refilled in place between calls, a dataset of more than a thousand designs, the three evaluation-index forms and the length guard; noisy evaluation with np.random.normal replaced by a recorded dyadic draw g must equal f + g L^T exactly for diagonal and correlated lower-triangular factors L; caller arrays compared before/after every call (dataset and continuous problems); the four bundled datasets checked exhaustively (sizes, inputs in [0,1] with both ends attained, outputs mean 0 / variance 1); normalize/unnormalize round trips on dyadic data; non-trivial = lookups + noisy evaluations",
            "samples": [{"kind": "noise", "L": [[1.0, 0.0], [2.0, 1.0]]}], "violations": viol, "extra": st}


def replay(ctx, data):
    viol = []
    st = {"lookups": 0, "decoupled": 0, "noisy_evaluations": 0, "continuous_evaluations": 0, "datasets": 0, "normalise_roundtrips": 0}
    k = data["replay"].get("kind")
    {"lookup": lookups, "dec": lookups, "noise": noise, "currin": continuous, "dataset": datasets, "norm": normalise}.get(k, lookups)(ctx, viol, st)
    return bool(viol), (viol[0]["message"] if viol else "no violation on replay")
