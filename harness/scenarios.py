"""scenarios.py — random / enumerated run specifications (datasets, cones, stub-posterior histories).
A spec is plain JSON-able data so that a failing run can be replayed exactly."""
from fractions import Fraction
import numpy as np
import gen, algrun

CONES2 = ["orthant2", "acute2", "obtuse2", "wide2", "narrow2"]
CONES3 = ["orthant3", "acute3", "obtuse3"]
CONES_KGT = ["redundant2", "four3", "six3"]          # more facets than objectives


def dy(rng, lo, hi, den):
    return rng.randint(lo * den, hi * den) / den


def auer_probe(rng):
    """per-design empirical widths that differ strongly, one early-index design discarded in round 1,
    and a P1 decision between the survivors that depends on using each design's OWN width"""
    m = 2
    c = rng.choice([8.0, 16.0])
    eps = rng.choice([1.0, 2.0])
    g = eps * rng.choice([0.25, 0.375, 0.5])
    K = rng.choice([3, 4])
    Y = [[-10.0, -10.0], [0.0, 0.0], [g, g]] + ([[-12.0, -9.0]] if K == 4 else [])
    order = list(range(K))
    hwv = [0.0, 0.0, rng.choice([6.0, 10.0, 14.0])] + ([1.0] if K == 4 else [])
    X = [[(k % 4) / 4.0, (k // 4) / 4.0] for k in range(K)]
    R = 3
    means = [Y for _ in range(R + 1)]
    hws = [[[h] * m for h in hwv] for _ in range(R + 1)]
    return {"algo": "Auer", "cone": "orthant2", "W": gen.CONES_2D["orthant2"][0], "X": X, "Y": Y, "eps": eps, "valid_by_construction": False,
            "style": "auer-probe", "means": means, "hw": hws, "batch": 1, "contraction": c, "costs": None, "budget": None,
            "auer_empirical": True, "no_shrink": True}


def auer_holdback(rng):
    """Auer with its real empirical model and NOISELESS observations (always a valid history): a design that is
    dominated from far away leaves S early (so positions in S stop being design ids), a strong design p sits in
    P1 and must be held back in S for as long as a nearby weaker design q (gap a little above eps) is undecided,
    plus incomparable bystanders; the roles are assigned to ids in a random order"""
    m = 2
    eps = rng.choice([0.05, 0.0625, 0.125])
    g = eps * rng.choice([2.0, 3.0, 3.25, 4.0])
    base = [dy(rng, 0, 2, 4) for _ in range(m)]
    roles = [[-5.0 + dy(rng, -1, 0, 4), -5.0], list(base), [b - g for b in base], [base[0] + 2.0, base[1] - 2.0]]
    extra = rng.choice([0, 0, 1, 2])
    for _ in range(extra):
        roles.append(rng.choice([[base[0] - 2.0 - dy(rng, 0, 1, 4), base[1] + 2.0], [-6.0, -4.0 - dy(rng, 0, 1, 4)], [base[0] - g / 2, base[1] - 2 * g]]))
    K = len(roles)
    perm = list(range(K)); rng.shuffle(perm)
    Y = [None] * K
    for r, k in zip(roles, perm):
        Y[k] = r
    X = [[(k % 4) / 4.0, (k // 4) / 4.0] for k in range(K)]
    noise = [[[0.0] * m for _ in range(K)] for _ in range(2)]
    return {"algo": "Auer-real", "cone": "orthant2", "W": gen.CONES_2D["orthant2"][0], "X": X, "Y": Y, "eps": eps, "valid_by_construction": True,
            "style": "auer-holdback", "means": [Y], "hw": [[[1.0] * m for _ in range(K)]], "batch": 1, "contraction": rng.choice([16.0, 32.0, 64.0]),
            "costs": None, "budget": None, "auer_empirical": False, "obs_noise": noise}


def real_spec(rng, algo):
    """PaVeBa / Auer with their real empirical model and scripted (dyadic, small) observation noise"""
    m = 2
    if algo == "Auer-real":
        cone = "orthant2"
    else:
        cone = rng.choice(CONES2 + ["redundant2"])
    W = gen.CONES_2D[cone][0]
    K = rng.choice([2, 3, 4, 5])
    eps = rng.choice([0.125, 0.25, 0.5])
    Y = []
    for k in range(K):
        if Y and rng.random() < 0.3:
            b = rng.choice(Y); Y.append([x + rng.choice([-1, 1]) * eps * rng.choice([0.5, 1.125, 2.0]) for x in b])
        else:
            Y.append([dy(rng, -2, 2, 8) for _ in range(m)])
    X = [[(k % 4) / 4.0, (k // 4) / 4.0] for k in range(K)]
    c = rng.choice([4.0, 8.0, 16.0])
    amp = rng.choice([0.0, 1 / 64, 1 / 32]) / c * 4
    noise = [[[rng.choice([-1, -0.5, 0, 0.5, 1]) * amp for _ in range(m)] for _ in range(K)] for _ in range(12)]
    if algo == "PaVeBa-real" and cone != "redundant2" and rng.random() < 0.5:
        # facet-adversarial valid history: first observations of designs 0 and 1 are pushed along a
        # facet normal in opposite directions by just under the round-1 radius (exact afterwards);
        # mode A: truths unordered on that facet (a too-eager discard is wrong);
        # mode B: design 1 exceeds design 0 by a bit more than eps*alpha on every facet and the
        #         observations are pushed apart (a too-eager declaration of design 0 is wrong)
        import math
        import numpy as _np
        Wn = _np.array(W, dtype=float)
        c = rng.choice([1.0, 2.0, 4.0]); K = rng.choice([2, 3])
        r1 = math.sqrt(8 * 0.01 * math.log(math.pi ** 2 * (m + 1) * K / (6 * 0.1))) / c
        n = rng.randrange(2)
        wn = Wn[n]; nw = float(_np.linalg.norm(wn)); wh = wn / nw
        OFF = 0.9 * r1
        dint = _np.linalg.solve(Wn, _np.ones(2))                     # W dint = (1,1)
        mode = rng.choice(["A", "B"])
        if mode == "A":
            base = dint * (6 * r1 * nw)                              # comfortably positive on both facets
            dmu = base - wh * ((wn @ base) / nw + 0.4 * r1)          # facet n: w.dmu = -0.4 r |w|
            sgn = 1.0
        else:
            import impl as _impl
            al = _impl.order_from_W(W, with_alpha=True).ordering_cone.alpha.flatten()
            dmu = _np.linalg.solve(Wn, 1.15 * eps * al)              # exceeds eps*alpha by 15% on every facet
            sgn = -1.0
        g = 2.0 ** 12
        dmu = _np.round(dmu * g) / g
        off = _np.trunc(OFF * wh * g) / g
        Y = [[0.0, 0.0], [float(dmu[0]), float(dmu[1])]] + ([[-40.0, -40.0]] if K == 3 else [])
        X = [[(k % 4) / 4.0, (k // 4) / 4.0] for k in range(K)]
        noise = [[[0.0] * m for _ in range(K)] for _ in range(12)]
        noise[1] = [[-sgn * float(off[0]), -sgn * float(off[1])], [sgn * float(off[0]), sgn * float(off[1])]] + ([[0.0, 0.0]] if K == 3 else [])
        noise[0] = noise[1]
        return {"algo": algo, "cone": cone, "W": W, "X": X, "Y": Y, "eps": eps, "valid_by_construction": True, "style": "facet-adversarial-" + mode,
                "means": [Y], "hw": [[[1.0] * m for _ in range(K)]], "batch": 1, "contraction": c, "costs": None, "budget": None,
                "auer_empirical": False, "obs_noise": noise}
    if algo == "PaVeBa-real" and rng.random() < 0.6:
        # adversarial first observation: off by just under the round-1 radius, exact afterwards
        import math
        r1 = math.sqrt(8 * 0.01 * math.log(math.pi ** 2 * (m + 1) * K / (6 * 0.1))) / c
        a = math.floor(0.65 * r1 * 1024) / 1024
        noise = [[[0.0] * m for _ in range(K)] for _ in range(12)]
        noise[1] = [[rng.choice([-1, 1]) * a for _ in range(m)] for _ in range(K)]
        noise[0] = noise[1]
    return {"algo": algo, "cone": cone, "W": W, "X": X, "Y": Y, "eps": eps, "valid_by_construction": True, "style": "real-model",
            "means": [Y], "hw": [[[1.0] * m for _ in range(K)]], "batch": 1, "contraction": c, "costs": None, "budget": None,
            "auer_empirical": (rng.random() < 0.5) if algo == "Auer-real" else False, "obs_noise": noise}


def stale_width_probe(rng, algo, mode=None):
    """ellipsoidal PaVeBa-family run in which design 0 enters P in round 1 and is NOT useful (its region
    freezes with the round-1 width); designs 1 and 2 keep each other in S and later move to a place
    where 'can design 0 still eps-cover design 1' depends on design 0's OWN (stale) width"""
    import math
    m, K, delta = 2, 3, 0.1
    mode = mode or rng.choice(["width", "witness"])
    eps = rng.choice([0.25, 0.5])
    h = rng.choice([0.25, 0.5])
    def scale(r):
        if algo == "PaVeBaGP-DE":
            return 8 * m * math.log(6) + 4 * math.log(math.pi ** 2 * r ** 2 * K / (6 * delta))
        if algo == "PaVeBaPartialGP-ell":
            return 2 * math.log(math.pi ** 2 * r ** 2 * K / (3 * delta))
        return math.sqrt(8 * 0.01 / r * math.log(math.pi ** 2 * (m + 1) * K * r ** 2 / (6 * delta)))
    R = rng.choice([3, 4, 5])
    ratio = scale(R) / scale(1)
    theta = (3 + ratio) * h / (2 * math.sqrt(2))          # between sqrt(2) h and (1+ratio) h / sqrt(2)
    dprime = eps - theta
    g = 2.0 ** 10
    dprime = math.floor(dprime * g) / g
    far1 = [-5.0, 5.0]; far2 = [-5.0 + h / 4, 5.0 + h / 4]
    near1 = [-dprime, -dprime]; near2 = [-dprime - h / 4, -dprime + h / 4]
    if mode == "witness":
        # designs 1,2 jump to a place entirely dominated by design 0's STALE region: only a
        # discarding step that (wrongly) takes witnesses from all of P would remove them in that round
        D = 6 * h + 2 * eps
        near1 = [-D, -D]; near2 = [-D - h / 4, -D + h / 4]
    means, hws = [], []
    for r in range(R + 2):
        if r < R:
            means.append([[0.0, 0.0], far1, far2])
        else:
            means.append([[0.0, 0.0], near1, near2])
        hws.append([[h, h]] * K)
    X = [[0.0, 0.0], [0.25, 0.0], [0.5, 0.0]]
    return {"algo": algo, "cone": "orthant2", "W": gen.CONES_2D["orthant2"][0], "X": X, "Y": [[0.0, 0.0], near1, near2], "eps": eps,
            "valid_by_construction": False, "style": "stale-" + mode + "-probe", "means": means, "hw": hws, "batch": 1, "contraction": 1.0,
            "costs": None, "budget": None, "auer_empirical": False, "no_shrink": True}


def later_facet_probe(rng, algo):
    """cones with more facets than objectives (four3, six3): design 1 exceeds design 0 on the first m facets but NOT
    on one of the later facets, both regions tiny and centred on the truth (valid): nothing may be eliminated or
    crash because of facets m+1..K; a second pair differs only on an early facet as a control"""
    import numpy as _np
    cone = rng.choice(["four3", "six3"])
    W = gen.CONES_3D[cone][0]; Wn = _np.array(W, dtype=float); m = 3
    while True:
        d = _np.array([rng.randint(-4, 4) for _ in range(m)], dtype=float)
        f = Wn @ d
        if (f[:m] > 0).all() and (f[m:] < 0).any():
            break
    scale = rng.choice([0.25, 0.5, 1.0])
    Y = [[0.0, 0.0, 0.0], [float(x) * scale for x in d], [-6.0, -6.0, -8.0]]
    K = len(Y)
    X = [[(k % 4) / 4.0, (k // 4) / 4.0] for k in range(K)]
    R = 6
    means = [[list(y) for y in Y] for _ in range(R + 1)]
    hws = [[[2.0 ** (-(r + 4)) * scale] * m for _ in range(K)] for r in range(R + 1)]
    return {"algo": algo, "cone": cone, "W": W, "X": X, "Y": Y, "eps": rng.choice([0.0625, 0.125]) * scale, "valid_by_construction": True,
            "style": "later-facet-probe", "means": means, "hw": hws, "batch": 1, "contraction": 1.0, "costs": None, "budget": None,
            "auer_empirical": False, "rho": [0.0] * K if algrun.REGION[algo] == "ell" else None}


def correlated_longaxis(rng, algo="PaVeBaGP-DE"):
    """valid history with strongly correlated ellipsoids (rho = 0.9): design q is dominated by design p far beyond eps,
    but the displayed centres are off along the LONG axis of the ellipsoids (p's centre below its truth, q's centre
    above) by 90-97% of the long semi-axis, so only the true orientation of the regions keeps 'p may still cover q'"""
    import math
    m = 2
    eps = rng.choice([0.0625, 0.125])
    g = rng.choice([1.0, 1.5])
    rho = rng.choice([0.875, 0.9375])
    frac = rng.choice([0.90625, 0.96875])
    Y = [[0.0, 0.0], [-g, -g], [6.0, -6.0]]
    K = 3
    X = [[(k % 4) / 4.0, (k // 4) / 4.0] for k in range(K)]
    R = 8
    means, hws = [], []
    for r in range(R + 1):
        h = g * 2.0 ** (-max(r - 1, 0))          # rounds are 1-based: the widest regions are displayed in round 1
        off = frac * h * math.sqrt(1 + rho) / math.sqrt(2)
        off = math.floor(off * 2 ** 20) / 2 ** 20
        means.append([[-off, -off], [-g + off, -g + off], list(Y[2])])
        hws.append([[h, h]] * K)
    return {"algo": algo, "cone": "orthant2", "W": gen.CONES_2D["orthant2"][0], "X": X, "Y": Y, "eps": eps, "valid_by_construction": True,
            "style": "correlated-long-axis", "means": means, "hw": hws, "batch": 1, "contraction": 1.0, "costs": None, "budget": None,
            "auer_empirical": False, "rho": [rho, rho, 0.0]}


def _spec_from_boxes(algo, Y, rounds, eps, style, valid):
    """rounds: list over rounds of list over designs of (lower, upper)"""
    K = len(Y); m = len(Y[0])
    means = [[[(l + u) / 2 for l, u in zip(lo, up)] for lo, up in rnd] for rnd in rounds]
    hws = [[[(u - l) / 2 for l, u in zip(lo, up)] for lo, up in rnd] for rnd in rounds]
    X = [[(k % 4) / 4.0, (k // 4) / 4.0] for k in range(K)]
    cone = "orthant2" if m == 2 else "orthant3"
    return {"algo": algo, "cone": cone, "W": (gen.CONES_2D if m == 2 else gen.CONES_3D)[cone][0], "X": X, "Y": Y, "eps": eps,
            "valid_by_construction": valid, "style": style, "means": means, "hw": hws, "batch": 1, "contraction": 1.0, "costs": None,
            "budget": None, "auer_empirical": False, "no_shrink": True}


def epal_directed(kind, algo="EpsilonPAL", variant=0):
    """hand-built region histories for eps-PAL / VOGP (componentwise order), all values dyadic:
    'stale-witness'   : in one round x is eps-discarded by the tight design p while x is the ONLY design whose region could
                        still exceed the wide candidate c by eps -> c must enter P in that round (witnesses = designs still active)
    'nonpess-coverer' : (valid history) p enters P in round 0 while x, which p dominates far beyond eps, is still uncertain in
                        one objective; in round 1 p's rectangle widens downwards so that p is no longer pessimistic — p must
                        still be tried as a coverer of x (covering depends on the witness's upper corner)
    'tie'             : two designs with identical rectangles (each pessimistically dominates the other), one design above
                        and one elsewhere: neither of the twins belongs to the pessimistic set"""
    e = 0.125
    sh = [0.0, 0.25, -0.5][variant % 3]
    def B(lo, up):
        return ([x + sh for x in lo], [x + sh for x in up])
    if kind == "stale-witness":
        p = B([1.0, 1.0], [1.015625, 1.015625])
        x = B([0.0, 0.0], [1.109375, 1.109375])            # upper <= p.lower + eps: discarded; lower <= p.lower: not pessimistic
        c = B([0.9375, 0.5], [3.0, 3.0])                   # "covered by j" = some point of j exceeds some point of c by eps:
                                                           # lower[0] > p.upper[0] - eps (p cannot), lower <= x.upper - eps (x can)
        far = B([-6.0, -6.0], [-5.0, -5.0])
        Y = [[1.0 + sh, 1.0 + sh], [0.5 + sh, 0.5 + sh], [2.0 + sh, 2.0 + sh], [-5.5 + sh, -5.5 + sh]]
        return _spec_from_boxes(algo, Y, [[p, x, c, far]] * 3, e, "epal-stale-witness", False)
    if kind == "nonpess-coverer":
        p0 = B([0.984375, 0.984375], [1.015625, 1.015625])
        x0 = B([0.0, 0.0], [0.5, 3.0])
        p1 = B([-2.0, -2.0], [1.015625, 1.015625])
        Y = [[1.0 + sh, 1.0 + sh], [0.25 + sh, 0.5 + sh]]
        return _spec_from_boxes(algo, Y, [[p0, x0], [p1, x0], [p1, x0], [p0, B([0.125, 0.375], [0.375, 0.625])]], e, "epal-nonpess-coverer", True)
    if kind == "tie":
        a = B([0.0, 0.0], [1.0, 1.0])
        c = B([2.0, -3.0], [2.5, -2.5])
        d = B([-3.0, 2.0], [-2.5, 2.5])
        Y = [[0.5 + sh, 0.5 + sh], [0.5 + sh, 0.5 + sh], [2.25 + sh, -2.75 + sh], [-2.75 + sh, 2.25 + sh]]
        return _spec_from_boxes(algo, Y, [[a, a, c, d]] * 3, e, "epal-tie", False)
    raise ValueError(kind)


def paveba_gp_requery(algo="PaVeBaGP-IH", variant=0):
    """PaVeBaGP (componentwise order): design 2 (p) enters P in round 0 and stays useful because it can cover design 1
    (c'), while it canNOT cover design 0 (c) in round 0 (c is better in the second objective); c is kept in S by c'.
    In round 1 c's region has widened downwards, so that p CAN cover it, and c' has collapsed so that it no longer can:
    c must stay in S in round 1 (the covering test is asked about the regions displayed in that round)."""
    e = 0.25
    sh = [0.0, 0.5, -1.0][variant % 3]
    def B(lo, up):
        return ([x + sh for x in lo], [x + sh for x in up])
    p = B([4.0, 4.0], [4.25, 4.25])
    c0 = B([0.0, 5.0], [0.5, 5.5]); c1 = B([0.0, 3.0], [0.5, 5.5])
    d0 = B([-1.0, -1.0], [3.0, 7.0]); d1 = B([-1.0, -1.0], [3.0, 2.0])
    Y = [[0.25 + sh, 5.25 + sh], [1.0 + sh, 1.0 + sh], [4.125 + sh, 4.125 + sh]]
    spec = _spec_from_boxes(algo, Y, [[c0, d0, p], [c0, d0, p], [c1, d1, p], [c1, d1, p]], e, "paveba-gp-requery", False)   # the PaVeBa family counts rounds from 1
    return spec


def paveba_same_round_blocker(algo="PaVeBaPartialGP-rect", variant=0):
    """valid history (componentwise order): design 0 (p) is far better than design 1 (q) and is decided first in the
    Pareto pass of round 1 (small id first); q, still too uncertain upwards in one objective to be discarded, is blocked
    from entering P only by p — also in the very pass in which p itself is moved to P.  Later rounds are tiny boxes
    around the truth, in which q is discarded.  q must never end in P (its gap is far above eps)."""
    e = 0.25
    sh = [0.0, 0.5, -1.0][variant % 3]
    def B(lo, up):
        return ([x + sh for x in lo], [x + sh for x in up])
    p = B([4.0, 4.0], [4.25, 4.25]); q = B([1.0, 1.0], [2.0, 4.5])
    Y = [[4.125 + sh, 4.125 + sh], [1.5 + sh, 1.5 + sh]]
    t = 2.0 ** -8
    late = [([y - t for y in Y[0]], [y + t for y in Y[0]]), ([y - t for y in Y[1]], [y + t for y in Y[1]])]
    return _spec_from_boxes(algo, Y, [[p, q], [p, q], late, late, late], e, "same-round-blocker", True)


def paveba_unequal_alpha(algo="PaVeBa", variant=0):
    """PaVeBa family with ellipsoids under a cone whose facets have DIFFERENT allowances alpha_n (the orthant written with rows
    of unequal length, W = [[1, 0], [0, 2]]: alpha = (1, 2)): design 0 can be eps-covered by design 1 on facet 1 only when
    facet 1 is asked for ITS OWN slack eps * alpha_1 (balls of radius 3/16, centres equal in objective 1, far apart in
    objective 2) — so design 0 must stay in S while design 1 is active or useful."""
    sh = [0.0, 0.5, -1.0][variant % 3]
    W = [[1, 0], [0, 2]]
    Y = [[0.0 + sh, 0.0 + sh], [0.0 + sh, 2.0 + sh]]
    X = [[0.0, 0.0], [0.25, 0.0]]
    r = 0.1875
    means = [Y] * 4; hws = [[[r, r], [r, r]]] * 4
    return {"algo": algo, "cone": "diag-scaled2", "W": W, "X": X, "Y": Y, "eps": 0.25, "valid_by_construction": True,
            "style": "unequal-alpha", "means": means, "hw": hws, "batch": 1, "contraction": 1.0, "costs": None,
            "budget": None, "auer_empirical": False, "no_shrink": True}


def vogp_acute3_directed(variant=0):
    """valid VOGP history with three objectives under the acute cone acute3 (rows (1,-2,4), (4,1,-2), (-2,4,1)): in round 0
    the truth of design 0 sits at the (upper, lower, upper) corner of its rectangle and the truth of design 1 at the
    (lower, upper, lower) corner of its own — the corner pair that decides facet 1 of the discarding test.  In truth design 1
    misses eps-dominating design 0 on that facet by 1/8 (design 0 is eps-isolated and must end in P); on the two other
    facets it dominates with room to spare.  Design 0's rectangle is wide, so design 1 pessimistically dominates it and the
    discarding test is really asked about the pair.  Later rounds are tiny boxes around the truth.  The slack of the run is read
    from a preliminary one-round run (it is the library's u*_eps snapped to 2^-20), so all values are exact dyadics."""
    W = gen.CONES_3D["acute3"][0]
    eps = [0.5, 0.25, 1.0][variant % 3]
    X = [[0.0, 0.0], [0.25, 0.0]]
    pre = {"algo": "VOGP", "cone": "acute3", "W": W, "X": X, "Y": [[0.0] * 3, [4.0] * 3], "eps": eps, "valid_by_construction": True,
           "style": "pre", "means": [[[0.0] * 3, [4.0] * 3]], "hw": [[[0.5] * 3, [0.5] * 3]], "batch": 1, "contraction": 1.0, "costs": None,
           "budget": None, "auer_empirical": False, "no_shrink": True}
    rec = run_spec(pre, max_steps=1)
    import numpy as _np
    sl = _np.asarray(rec["slack_cov"], dtype=float).ravel()
    sl = [float(x) for x in (_np.repeat(sl, 3) if sl.size == 1 else sl)]
    t = [8.0, 8.0, 1.96875]                                   # W t = (-1/8, 36.0625, 17.96875)
    Y0 = [0.0, 0.0, 0.0]; Y1 = [a - b for a, b in zip(t, sl)]
    g = 0.125; G = 2.0                                        # design 0 is wide: design 1 dominates its lower corner (pessimistically)
    b0 = ([-G, 0.0, -G], [0.0, G, 0.0])
    b1 = ([Y1[0], Y1[1] - g, Y1[2]], [Y1[0] + g, Y1[1], Y1[2] + g])
    tiny = 2.0 ** -10
    rounds = [[b0, b1]] + [[([y - tiny for y in Y0], [y + tiny for y in Y0]), ([y - tiny for y in Y1], [y + tiny for y in Y1])]] * 5
    means = [[[(l + u) / 2 for l, u in zip(lo, up)] for lo, up in rnd] for rnd in rounds]
    hws = [[[(u - l) / 2 for l, u in zip(lo, up)] for lo, up in rnd] for rnd in rounds]
    return {"algo": "VOGP", "cone": "acute3", "W": W, "X": X, "Y": [Y0, Y1], "eps": eps, "valid_by_construction": True,
            "style": "vogp-acute3-corner", "means": means, "hw": hws, "batch": 1, "contraction": 1.0, "costs": None,
            "budget": None, "auer_empirical": False, "no_shrink": True}


def cover_adversarial(rng, algo):
    """valid history for VOGP with a cone wider than the orthant: design 1 dominates design 0 beyond the
    eps-slack while being WORSE in one objective; design 0 stays very uncertain in one objective for the
    first rounds (so it cannot be discarded early and the eps-covering test decides its fate)"""
    import numpy as _np
    cone = rng.choice(["obtuse2", "wide2"])
    W = gen.CONES_2D[cone][0]
    Wn = _np.array(W, dtype=float)
    eps = rng.choice([0.125, 0.25, 0.5])
    a, b = rng.choice([(4.0, 0.5), (0.5, 4.0), (3.0, 0.25)])
    v = _np.linalg.solve(Wn, _np.array([a, b]))                     # in the cone, one negative component
    v = v / max(abs(v))
    lam = rng.choice([0.5, 1.0, 2.0])
    yj = 1.5 * eps * _np.array([0.75, 0.75]) + lam * v
    g = 2.0 ** 8
    yj = _np.round(yj * g) / g
    K = rng.choice([2, 3])
    Y = [[0.0, 0.0], [float(yj[0]), float(yj[1])]] + ([[-6.0, -6.5]] if K == 3 else [])
    X = [[(k % 4) / 4.0, (k // 4) / 4.0] for k in range(K)]
    R = 8
    wide = 0 if v[0] < 0 else 1
    means, hws = [], []
    for r in range(R + 1):
        small_h = 2.0 ** (-(r + 3))
        big_h = 2.0 ** (3 - r)                                   # huge in one objective, shrinking
        h0 = [small_h, small_h]; h0[rng.choice([wide, 1 - wide]) if r == 0 else wide] = big_h
        hws.append([h0, [small_h, small_h]] + ([[small_h, small_h]] if K == 3 else []))
        means.append([list(y) for y in Y])
    return {"algo": algo, "cone": cone, "W": W, "X": X, "Y": Y, "eps": eps, "valid_by_construction": True, "style": "cover-adversarial",
            "means": means, "hw": hws, "batch": rng.choice([1, 1, 2]), "contraction": 1.0, "costs": None, "budget": None, "auer_empirical": False}


def make_spec(rng, algo, valid=None, small=True):
    if algo == "VOGP" and valid is not False and rng.random() < 0.3:
        return cover_adversarial(rng, algo)
    if algo in ("PaVeBa", "PaVeBaGP-DE", "PaVeBaPartialGP-ell") and valid is not True and rng.random() < 0.25:
        return stale_width_probe(rng, algo)
    if algo in ("PaVeBaGP-IH", "PaVeBaPartialGP-rect") and valid is not True and rng.random() < 0.2:
        return stale_width_probe(rng, algo, mode="witness")
    if algo.endswith("-real"):
        return real_spec(rng, algo)
    if algo == "Auer" and rng.random() < 0.3:
        return auer_probe(rng)
    fam = algrun.FAMILY[algo]
    reg = algrun.REGION[algo]
    m = rng.choice([2, 2, 2, 3])
    if algo in ("EpsilonPAL", "Auer"):
        cone = "orthant2" if m == 2 else "orthant3"
    elif reg == "rect" and fam == "pv":
        cone = rng.choice(CONES2 if m == 2 else CONES3)            # facets == objectives (see known finding)
    else:
        pool = (CONES2 + ["redundant2"]) if m == 2 else (CONES3 + ["four3", "six3"])
        cone = rng.choice(pool)
    W = (gen.CONES_2D if m == 2 else gen.CONES_3D)[cone][0]
    K = rng.choice([2, 3, 3, 4, 4, 5] + ([] if small else [6, 7, 8]))
    eps = rng.choice([0.125, 0.25, 0.5, 1.0])
    # truth: dyadic, with ties / chains / gaps near eps
    Y = []
    for k in range(K):
        r = rng.random()
        if Y and r < 0.15:
            Y.append(list(rng.choice(Y)))
        elif Y and r < 0.35:
            b = rng.choice(Y)
            Y.append([x + rng.choice([-1, 1]) * eps * rng.choice([0.5, 1.0, 1.125, 2.0]) for x in b])
        else:
            Y.append([dy(rng, -2, 2, 8) for _ in range(m)])
    X = [[(k % 4) / 4.0, (k // 4) / 4.0] for k in range(K)]
    valid = rng.random() < 0.6 if valid is None else valid
    R = rng.randint(2, 6)
    means, hws = [], []
    base = rng.choice([0.25, 0.5, 1.0, 2.0])
    style = rng.choice(["center", "corner", "aniso", "same", "touch"]) if valid else rng.choice(["wild", "drift", "drift", "same", "touch"])
    auer_emp = (rng.random() < 0.6) if algo == "Auer" else False
    if auer_emp:
        style = "aniso" if valid else "wild"
    design_factor = [rng.choice([0.25, 0.5, 0.875, 1.0, 1.125, 1.25, 2.0, 4.0]) for _ in range(K)]
    vary_widths = rng.random() < 0.5
    if style == "drift":
        R = rng.randint(4, 7)
        far = [rng.choice([-1, 1]) * rng.choice([1.5, 2.0, 3.0]) for _ in range(m)]
        anchor = [dy(rng, -1, 1, 8) for _ in range(m)]
        others = [[dy(rng, -2, 2, 8) for _ in range(m)] for _ in range(K)]
    for r in range(R + 1):
        shrink = base / (2 ** r) if style != "drift" else base / 2
        mu, hw = [], []
        for k in range(K):
            if auer_emp:
                h = [shrink * design_factor[k] * rng.choice([0.5, 1.0]) for _ in range(m)]
            elif style == "aniso":
                h = [shrink * rng.choice([0.25, 0.5, 1.0, 2.0]) for _ in range(m)]
            elif vary_widths and style not in ("same", "touch", "drift"):
                h = [shrink * design_factor[k]] * m
            else:
                h = [shrink] * m
            if reg != "rect" and reg != "auer":
                h = [h[0]] * m                         # one radius per ellipsoid
            if valid:
                if style == "corner":
                    off = [rng.choice([-1, 1]) * x for x in h]
                elif style in ("same", "touch"):
                    off = [0.0] * m
                else:
                    off = [x * rng.choice([-0.75, -0.5, 0.0, 0.25, 0.5, 0.875]) for x in h]
                if reg == "ell":
                    off = [x * 0.5 for x in off]          # stay inside the ball, not just the bounding box
                mu.append([a + b for a, b in zip(Y[k], off)])
            elif style == "drift":
                # design 0 fixed; design 1 drifts from far away towards (and past) design 0; the rest fixed
                if k == 0:
                    mu.append(list(anchor))
                elif k == 1:
                    f = 1.0 - 1.25 * r / R
                    mu.append([a + f * d for a, d in zip(anchor, far)])
                else:
                    mu.append(list(others[k]))
            else:
                mu.append([dy(rng, -2, 2, 16) for _ in range(m)])
            hw.append(h)
        if style == "same" and K >= 2:
            mu[1] = list(mu[0]); hw[1] = list(hw[0])
        if style == "touch" and K >= 2 and reg == "rect":
            mu[1] = [a + 2 * h for a, h in zip(mu[0], hw[0])]; hw[1] = list(hw[0])
        means.append(mu); hws.append(hw)
    spec = {"algo": algo, "cone": cone, "W": W, "X": X, "Y": Y, "eps": eps, "valid_by_construction": bool(valid and style not in ("same", "touch")),
            "style": style, "means": means, "hw": hws, "batch": rng.choice([1, 1, 2, 3, 7]) if algo not in ("PaVeBa", "Auer") else 1,
            "contraction": 1.0 if algo != "Auer" else rng.choice([8.0, 16.0, 32.0]),
            "costs": None, "budget": None, "auer_empirical": auer_emp,
            "rho": [rng.choice([-0.25, 0.0, 0.5]) for _ in range(K)] if reg == "ell" else None}
    if algo.startswith("PaVeBaPartialGP") and rng.random() < 0.5:
        spec["costs"] = [rng.choice([1.0, 2.0, 0.5]) for _ in range(m)]
        spec["budget"] = rng.choice([None, 3.0, 6.0, 100.0])
    return spec


def sched_of(spec):
    means, hws = spec["means"], spec["hw"]
    R = len(means) - 1

    def sched(r):
        # rounds are 1-based for PaVeBa/Auer and 0-based for VOGP/ePAL; clamp and keep shrinking afterwards
        k = min(max(r, 0), R)
        mu = means[k]
        extra = max(0, r - R)
        hw = [[h / (2 ** (0 if spec.get("no_shrink") else extra)) for h in row] for row in hws[k]]
        return mu, hw
    return sched


def run_spec(spec, max_steps=14):
    on = spec.get("obs_noise")
    extra = {"obs_noise": (lambda r, i: on[min(r, len(on) - 1)][i])} if on else {}
    if spec.get("rho"):
        extra["rho"] = spec["rho"]
    rec = algrun.run_algo(spec["algo"], spec["X"], spec["Y"], spec["W"], spec["eps"], sched_of(spec), max_steps=max_steps, **extra,
                          batch=spec.get("batch", 1), costs=spec.get("costs"), budget=spec.get("budget"),
                          contraction=spec.get("contraction", 1.0), auer_empirical=spec.get("auer_empirical", False))
    rec["spec"] = spec
    return rec


def collect(ctx, algos, n_per_algo, valid=None, small=True):
    recs = []
    for a in algos:
        for _ in range(n_per_algo * (3 if a == "Auer" else 1)):
            recs.append(run_spec(make_spec(ctx.rng, a, valid=valid, small=small)))
    return recs
