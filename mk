#!/bin/bash
# ./mk <targets...> : regenerate the Coq Makefile if the file list changed and build targets
cd /verif && /venv/bin/python - "$@" <<'PY' 2>&1 | grep -v "WARNING: This directory"
import sys; sys.path.insert(0,'harness')
import common
with common.BuildLock():
    ok,log=common.make(sys.argv[1:] or [], keep_going=True)
print(log[-6000:]); print("OK" if ok else "FAILED")
PY
