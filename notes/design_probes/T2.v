From Coq Require Import Reals.
From Coquelicot Require Import Coquelicot.
From Interval Require Import Tactic.
Open Scope R_scope.
Goal 0.55 <= RInt (fun x => exp (- x^2/2) / sqrt (2*PI)) 0 0.77 * 2 <= 0.57.
Proof. integral. Qed.
Goal PI^2 < 10. Proof. interval. Qed.
Goal forall x, 1 <= x <= 3 -> exp (-x) <= 0.37.
Proof. intros. interval. Qed.
