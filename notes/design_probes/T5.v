From Coq Require Import QArith Lqa List Bool.
Import ListNotations.
Open Scope Q_scope.

Fixpoint dot (a b : list Q) : Q :=
  match a, b with x::a', y::b' => x*y + dot a' b' | _, _ => 0 end.

Definition box := list (Q * Q).
Fixpoint inbox (b : box) (z : list Q) : Prop :=
  match b, z with
  | [], [] => True
  | (l,h)::b', x::z' => l <= x /\ x <= h /\ inbox b' z'
  | _, _ => False
  end.
Fixpoint vertices (b : box) : list (list Q) :=
  match b with
  | [] => [[]]
  | (l,h)::b' => map (cons l) (vertices b') ++ map (cons h) (vertices b')
  end.

Lemma affine_box : forall (b : box) (w : list Q) (c : Q),
  length w = length b ->
  (forall v, In v (vertices b) -> 0 <= dot w v + c) ->
  forall z, inbox b z -> 0 <= dot w z + c.
Proof.
  induction b as [|[l h] b IH]; intros w c Hlen Hv z Hz.
  - destruct z; simpl in Hz; [|contradiction]. apply (Hv []). simpl; auto.
  - destruct z as [|x z]; simpl in Hz; [contradiction|].
    destruct w as [|a w]; simpl in Hlen; [discriminate|].
    destruct Hz as (Hl & Hh & Hz). simpl.
    assert (Hlo : 0 <= dot w z + (a*l + c)).
    { apply IH; auto. intros v Hin. specialize (Hv (l::v)). simpl in Hv.
      assert (In (l::v) (map (cons l) (vertices b) ++ map (cons h) (vertices b))).
      { apply in_or_app; left; apply in_map; auto. }
      specialize (Hv H). lra. }
    assert (Hhi : 0 <= dot w z + (a*h + c)).
    { apply IH; auto. intros v Hin. specialize (Hv (h::v)). simpl in Hv.
      assert (In (h::v) (map (cons l) (vertices b) ++ map (cons h) (vertices b))).
      { apply in_or_app; right; apply in_map; auto. }
      specialize (Hv H). lra. }
    destruct (Qlt_le_dec a 0).
    + assert (a*h <= a*x) by nra. lra.
    + assert (a*l <= a*x) by nra. lra.
Qed.
Print Assumptions affine_box.
