From Coq Require Import Reals Lra Lia.
Open Scope R_scope.

Fixpoint sumf (f : nat -> R) (n : nat) : R :=   (* sum_{t=1..n} f t *)
  match n with O => 0 | S k => sumf f k + f (S k) end.

Lemma sum_inv_sq : forall n, (1 <= n)%nat -> sumf (fun t => 1 / (INR t)^2) n <= 2 - 1 / INR n.
Proof.
  induction n as [|n IH]; intros Hn; [lia|].
  destruct n as [|n].
  - simpl. lra.
  - change (sumf (fun t => 1 / INR t ^ 2) (S (S n))) with
      (sumf (fun t => 1 / INR t ^ 2) (S n) + 1 / INR (S (S n)) ^ 2).
    assert (IH' := IH ltac:(lia)).
    assert (Hp : 0 < INR (S n)) by (apply lt_0_INR; lia).
    rewrite (S_INR (S n)). set (x := INR (S n)) in *.
    assert (1 / (x+1)^2 <= 1/x - 1/(x+1)).
    { unfold Rdiv. 
      assert (0 < x + 1) by lra.
      replace (1 * / x - 1 * / (x + 1)) with (/ (x * (x+1))) by (field; lra).
      rewrite !Rmult_1_l. apply Rinv_le_contravar; nra. }
    lra.
Qed.

(* Auer-style schedule *)
Definition beta (K m delta : R) (t : nat) : R := sqrt (2 * ln (4 * K * m * (INR t)^2 / delta) / INR t).

Section Tail.
Variable T : R -> R.
Hypothesis tail_chernoff : forall x, 0 <= x -> T x <= exp (- x^2 / 2).

Lemma auer_term : forall K m delta t, 1 <= K -> 1 <= m -> 0 < delta < 1 -> (1 <= t)%nat ->
  K * m * T (beta K m delta t * sqrt (INR t)) <= delta / (4 * (INR t)^2).
Proof.
  intros K m delta t HK Hm Hd Ht.
  assert (Ht' : 1 <= INR t) by (apply (le_INR 1); lia).
  set (A := 4 * K * m * INR t ^ 2 / delta).
  assert (HA : 1 <= A).
  { unfold A. assert (1 <= K*m) by nra. assert (1 <= INR t ^ 2) by nra.
    assert (1 <= K*m*INR t^2) by nra.
    apply (Rmult_le_reg_r delta); [lra|]. unfold Rdiv. rewrite Rmult_assoc, Rinv_l by lra. nra. }
  assert (Hln : 0 <= ln A) by (rewrite <- ln_1; destruct HA as [HA|HA]; [left; apply ln_increasing; lra| rewrite <- HA; lra]).
  assert (Hb : 0 <= beta K m delta t * sqrt (INR t)).
  { apply Rmult_le_pos; apply sqrt_pos. }
  eapply Rle_trans. { apply Rmult_le_compat_l; [nra|]. apply tail_chernoff; exact Hb. }
  assert (Hsq : (beta K m delta t * sqrt (INR t))^2 = 2 * ln A).
  { unfold beta. fold A. rewrite Rpow_mult_distr. rewrite <- !Rsqr_pow2. rewrite !Rsqr_sqrt; try lra.
    - field; lra.
    - apply Rmult_le_pos; [lra|]. left; apply Rinv_0_lt_compat; lra. }
  rewrite Hsq. replace (- (2 * ln A) / 2) with (- ln A) by lra.
  rewrite exp_Ropp, exp_ln by lra.
  unfold A. apply Req_le. field. split; [lra|]. split; nra.
Qed.
End Tail.
Print Assumptions auer_term.
