import warnings; warnings.filterwarnings("ignore")
import time; t=time.time()
import numpy as np
from vopy.order import *
from vopy.utils import *
from vopy.confidence_region import *
print("import", time.time()-t)
# C13 naive near-duplicate
o = ComponentwiseOrder(2)
print("naive", o.get_pareto_set_naive(np.array([[0.,0.],[1e-9,1e-9]])), "fast", o.get_pareto_set(np.array([[0.,0.],[1e-9,1e-9]])))
print("dup fast", o.get_pareto_set(np.array([[1.,1.],[1.,1.],[0,2.],[0,2.]])), "naive", o.get_pareto_set_naive(np.array([[1.,1.],[1.,1.],[0,2.],[0,2.]])))
# alpha for obtuse cone
for th in [45,60,90,120,135,150]:
    c = ConeTheta2DOrder(th)
    W = c.ordering_cone.W
    a = c.ordering_cone.alpha.flatten()
    print(th, W.round(4).tolist(), a.round(5), "W@a", (W@a).round(5), "beta", c.ordering_cone.beta)
for t in ["acute","right","obtuse"]:
    c = ConeOrder3D(t); W=c.ordering_cone.W; a=c.ordering_cone.alpha.flatten()
    print(t, a.round(5), (W@a).round(5))
c = ConeOrder3DIceCream(30, 6); W=c.ordering_cone.W; a=c.ordering_cone.alpha.flatten()
print("ice", W.shape, a.round(4))
