# brute-force sanity check of the planned C01/C05 theorem statements on the spec transitions (W = I, boxes)
import random
from fractions import Fraction as F
random.seed(7)
def dom(r1, r2, s):   # forall z in r1, z' in r2: z'+s >= z  (componentwise)
    return all(r2[0][k] + s[k] >= r1[1][k] for k in range(len(s)))
def cov(r1, r2, s):   # exists z in r1, z' in r2: z' - z >= s
    return all(r2[1][k] - r1[0][k] >= s[k] for k in range(len(s)))
def gap(mu, i):
    return max(min(max(F(0), mu[j][k]-mu[i][k]) for k in range(len(mu[i]))) for j in range(len(mu)))
def wdom(a,b): return all(x>=y for x,y in zip(a,b))
def rand_region(mu_i, width, rng):
    lo=[];hi=[]
    for x in mu_i:
        w = width*F(rng.randint(1,8),8)
        off = w*F(rng.randint(0,8),8)      # truth anywhere inside incl. corners
        lo.append(x-off); hi.append(x-off+w)
    return (lo,hi)
def run_paveba(mu, eps, rng, maxr=40):
    K=len(mu); m=len(mu[0]); S=set(range(K)); P=set(); U=set(); disp={}
    s0=[F(0)]*m; se=[eps]*m
    for t in range(1,maxr+1):
        if not S: break
        width = F(4, t*t)
        A=S|U
        for i in A: disp[i]=rand_region(mu[i], width, rng)
        D=[i for i in S if any(j!=i and dom(disp[i],disp[j],s0) for j in A)]
        S-=set(D)
        A=S|U
        N=[i for i in S if not any(j!=i and cov(disp[i],disp[j],se) for j in A)]
        S-=set(N); P|=set(N)
        U={p for p in P if any(cov(disp[s],disp[p],se) for s in S)}
    return S,P
def run_vogp(mu, eps, rng, maxr=40):
    K=len(mu); m=len(mu[0]); S=set(range(K)); P=set(); disp={}
    se=[eps]*m
    def pessdom(r1,r2): # every point of r1 dominates some point of r2  (W=I): l1 >= l2
        return all(r1[0][k] >= r2[0][k] for k in range(m))
    for t in range(1,maxr+1):
        if not S: break
        width=F(4,t*t); Wt=S|P
        for i in Wt: disp[i]=rand_region(mu[i], width, rng)
        pess={i for i in Wt if not any(j!=i and pessdom(disp[j],disp[i]) for j in Wt)}
        D=[i for i in S-pess if any(dom(disp[i],disp[p],se) for p in pess)]
        S-=set(D); Wt=S|P
        N=[i for i in S if not any(j!=i and cov(disp[i],disp[j],se) for j in Wt)]
        S-=set(N); P|=set(N)
    return S,P
bad=0; runs=0
for trial in range(4000):
    rng=random.Random(trial)
    K=rng.randint(2,6); m=2
    mu=[[F(rng.randint(0,6),4) for _ in range(m)] for _ in range(K)]
    eps=F(rng.choice([1,2,3]),8)
    S,P=run_paveba(mu,eps,rng)
    if S: continue
    runs+=1
    for i in range(K):
        if i not in P and not any(wdom(mu[p],mu[i]) for p in P): bad+=1; print("PaVeBa claim1 fails",mu,eps,P,i)
        if i in P and gap(mu,i)>eps: bad+=1; print("PaVeBa claim2 fails",mu,eps,P,i,gap(mu,i))
    S,P=run_vogp(mu,eps,rng)
    if S: continue
    for i in range(K):
        iso = not any(j!=i and all(mu[j][k]+eps>=mu[i][k] for k in range(m)) for j in range(K))
        if iso and i not in P: bad+=1; print("VOGP isolated lost",mu,eps,P,i)
    for i in P:
        for j in P:
            if i!=j and all(mu[j][k]>=mu[i][k]+eps for k in range(m)) and any(mu[j][k]>mu[i][k]+eps for k in range(m)):
                pass
            if i!=j and all(mu[j][k]-mu[i][k]-eps>=0 for k in range(m)):
                bad+=1; print("VOGP P eps-dominated",mu,eps,P,i,j)
print("runs",runs,"bad",bad)
