import ast, hashlib, sys, glob, os
files = ["paveba","paveba_gp","paveba_partial_gp","vogp","vogp_ad","epal","auer","naive_elimination","decoupled"]
methods = ["modeling","discarding","pareto_updating","epsiloncovering","useful_updating","evaluating","evaluate_refine","run_one_step","compute_pessimistic_set","compute_radius","compute_alpha","compute_beta"]
class Strip(ast.NodeTransformer):
    def visit_Expr(self, node):
        if isinstance(node.value, ast.Constant) and isinstance(node.value.value, str): return None
        if isinstance(node.value, ast.Call) and isinstance(node.value.func, ast.Attribute) and isinstance(node.value.func.value, ast.Name) and node.value.func.value.id=="logging": return None
        return node
    def visit_Assign(self, node):
        if len(node.targets)==1 and isinstance(node.targets[0], ast.Name) and node.targets[0].id=="round_str": return None
        return node
table={}
for f in files:
    src=open(f"/repo/vopy/algorithms/{f}.py").read(); tree=ast.parse(src)
    for cls in [n for n in tree.body if isinstance(n, ast.ClassDef)]:
        for fn in [n for n in cls.body if isinstance(n, ast.FunctionDef)]:
            if fn.name in methods:
                fn2=Strip().visit(fn); ast.fix_missing_locations(fn2)
                body=ast.unparse(ast.Module(body=fn2.body, type_ignores=[]))
                h=hashlib.sha1(body.encode()).hexdigest()[:8]
                table.setdefault(fn.name,{}).setdefault(h,[]).append(f)
                table[fn.name].setdefault("_src",{})[h]=body
for m,v in table.items():
    print("==",m)
    for h,fs in v.items():
        if h=="_src": continue
        print("  ",h,fs, "lines", v["_src"][h].count("\n")+1)
print()
print(table["discarding"]["_src"][list(k for k in table["discarding"] if k!="_src")[0]])
