import warnings; warnings.filterwarnings("ignore")
import numpy as np, torch
from vopy.models import *
from vopy.maximization_problem import *
from vopy.datasets import get_dataset_instance
from vopy.utils import *
from vopy.acquisition import *
from vopy.design_space import *
np.random.seed(0); torch.manual_seed(0)
ds = get_dataset_instance("Test")
print("in", ds.in_data.min(0), ds.in_data.max(0), "out mean", ds.out_data.mean(0).round(12), "std", ds.out_data.std(0))
prob = ProblemFromDataset(ds, 0.01)
for cls in [CorrelatedExactGPyTorchModel, IndependentExactGPyTorchModel]:
    m = cls(4,2,0.01)
    m.add_sample(ds.in_data[:5], ds.out_data[:5]); m.update()
    mu, cov = m.predict(ds.in_data[:1]); print(cls.__name__, "N=1", mu.shape, cov.shape)
    mu, cov = m.predict(ds.in_data[:3]); print(cls.__name__, "N=3", mu.shape, cov.shape)
    dsp = FixedPointsDesignSpace(ds.in_data, 2)
    dsp.update(m, np.array(2.0), [3])
    mu3, cov3 = m.predict(ds.in_data[:5])
    print(" single-update region", dsp.confidence_regions[3].lower, dsp.confidence_regions[3].upper, "expected centre", mu3[3], "std", np.sqrt(np.diag(cov3[3])))
    print(" ls/var", m.get_lengthscale_and_var())
    m.clear_data()
    try:
        m.update(); mu, cov = m.predict(ds.in_data[:3]); print(" after clear+update predict", mu.round(4).tolist(), np.diagonal(cov,axis1=-2,axis2=-1).round(4).tolist())
    except Exception as e: print(" after clear+update predict EXC", type(e).__name__, str(e)[:200])
ml = GPyTorchModelListExactModel(4,2,0.01)
for d in range(2): ml.add_sample(ds.in_data[:5], ds.out_data[:5,d], d)
ml.update()
mu,cov = ml.predict(ds.in_data[:1]); print("ML N=1", mu.shape, cov.shape)
print("ML ls/var", [a.shape for a in ml.get_lengthscale_and_var()])
ml3 = GPyTorchModelListExactModel(2,3,0.01)
X = np.random.rand(5,2); Y=np.random.rand(5,3)
for d in range(3): ml3.add_sample(X, Y[:,d], d)
ml3.update()
try: print("ML3 ls/var", [a.shape for a in ml3.get_lengthscale_and_var()])
except Exception as e: print("ML3 ls/var EXC", type(e).__name__, e)
ml.clear_data(); 
try:
    ml.update(); mu,cov = ml.predict(ds.in_data[:2]); print("ML clear", mu, np.diagonal(cov,axis1=-2,axis2=-1))
except Exception as e: print("ML clear EXC", type(e).__name__, str(e)[:200])
# factory with 0 init
m0 = get_gpytorch_model_w_known_hyperparams(IndependentExactGPyTorchModel, prob, 0.01, 0, X=ds.in_data, Y=ds.out_data)
print("factory0 held", m0.train_inputs.shape, "conditioned", m0.model.train_inputs[0].shape)
try:
    mu,cov = m0.predict(ds.in_data[:3]); print(" predict", mu.round(3).tolist(), "true", ds.out_data[:3].round(3).tolist(), np.diagonal(cov,axis1=-2,axis2=-1).round(4).tolist())
except Exception as e: print(" EXC", e)
# BraninCurrin input mutation
bc = BraninCurrin(0.01)
x = np.array([[0.5,0.0],[0.25,0.5]]); x0 = x.copy(); bc.evaluate(x); print("BC mutated:", not np.array_equal(x,x0), x.tolist())
# chol
L = np.array([[1.0,0],[2.0,1.0]])
np.random.seed(1); g = np.random.normal(size=(3,2)); np.random.seed(1)
out = get_noisy_evaluations_chol(np.zeros((3,2)), L)
print("chol uses X@L:", np.allclose(out, g@L), " X@L.T:", np.allclose(out, g@L.T))
# optimise q > n
class A(AcquisitionStrategy):
    def forward(self, x): return x[:,0]
try: print(optimize_acqf_discrete(A(), 4, np.array([[1.,0],[3,0],[2,0]])))
except Exception as e: print("optimize q>n EXC", type(e).__name__, e)
print(optimize_acqf_discrete(A(), 3, np.array([[1.,0],[3,0],[3,0]])))
