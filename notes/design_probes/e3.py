import warnings; warnings.filterwarnings("ignore")
import numpy as np
from vopy.datasets.dataset import *
for n in ["Test","SNW","DiskBrake","VehicleSafety"]:
    d = get_dataset_instance(n)
    u = np.unique(d.in_data, axis=0)
    uo = np.unique(d.out_data, axis=0)
    print(n, d.in_data.shape, d.out_data.shape, "unique in", len(u), "unique out", len(uo), "in range", d.in_data.min(), d.in_data.max(), "out mean", np.abs(d.out_data.mean(0)).max(), "std", d.out_data.std(0))
