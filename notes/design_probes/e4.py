import warnings; warnings.filterwarnings("ignore")
import numpy as np, cvxpy as cp, collections
from vopy.order import *
from vopy.confidence_region import *
rng = np.random.default_rng(0)
def truth_rect_cov(W, r1, r2, s):
    # exact LP via scipy highs with margin
    from scipy.optimize import linprog
    m = W.shape[1]
    # variables d in box [l2-u1, u2-l1]; maximize t s.t. W(d - s) >= t
    lo = r2.lower - r1.upper; hi = r2.upper - r1.lower
    K = W.shape[0]
    c = np.zeros(m+1); c[-1] = -1
    A = np.hstack([-W, np.ones((K,1))]); b = -W@ (np.ones(m)*s if np.ndim(s)==0 else s)
    res = linprog(c, A_ub=A, b_ub=b, bounds=[(l,h) for l,h in zip(lo,hi)]+[(None,None)])
    return res.x[-1]
orders = [ComponentwiseOrder(2), ConeTheta2DOrder(45), ConeTheta2DOrder(135), ConeOrder3D("acute"), ConeOrder3DIceCream(30,6)]
stat = collections.Counter(); bad=[]
for scale in [1e2, 1, 1e-2, 1e-4, 1e-6]:
  for o in orders:
    W = o.ordering_cone.W; m = W.shape[1]
    for it in range(60):
        c1 = rng.normal(size=m); c2 = c1 + rng.normal(size=m)*scale*2
        h1 = rng.uniform(0.1,1,size=m)*scale; h2 = rng.uniform(0.1,1,size=m)*scale
        r1 = RectangularConfidenceRegion(m, c1-h1, c1+h1); r2 = RectangularConfidenceRegion(m, c2-h2, c2+h2)
        s = np.ones(m)*scale*rng.choice([0,0.3])
        t = truth_rect_cov(W, r1, r2, s)
        got = RectangularConfidenceRegion.is_covered(o, r1, r2, s)
        margin = t/scale
        if abs(margin) < 1e-3: stat[(scale,'boundary')]+=1; continue
        ok = (got == (t>0)); stat[(scale, ok)] += 1
        if not ok: bad.append((scale, type(o).__name__, margin, got))
print(sorted(stat.items(), key=str)); print(bad[:20], len(bad))
