import warnings; warnings.filterwarnings("ignore")
import numpy as np, cvxpy as cp
from vopy.order import *
from vopy.algorithms.vogp import VOGP
from vopy.utils import get_alpha_vec
def ustar(W):
    class O: pass
    o=O(); o.ordering_cone=O(); o.ordering_cone.W=W
    v = VOGP.__new__(VOGP); v.order=o; v.m=W.shape[1]
    return VOGP.compute_u_star(v)
def ref(W):
    z = cp.Variable(W.shape[1]); p = cp.Problem(cp.Minimize(cp.norm(z)), [W@z>=1]); p.solve(solver=cp.CLARABEL)
    return z.value/np.linalg.norm(z.value), np.linalg.norm(z.value)
rng=np.random.default_rng(1)
cones = {"I2":np.eye(2),"I3":np.eye(3),"t45":ConeTheta2DOrder(45).ordering_cone.W,"t135":ConeTheta2DOrder(135).ordering_cone.W,"t10":ConeTheta2DOrder(10).ordering_cone.W,"t170":ConeTheta2DOrder(170).ordering_cone.W,
 "acute":ConeOrder3D("acute").ordering_cone.W,"obtuse":ConeOrder3D("obtuse").ordering_cone.W,"ice30_6":ConeOrder3DIceCream(30,6).ordering_cone.W,"ice60_8":ConeOrder3DIceCream(60,8).ordering_cone.W, "ice10_3":ConeOrder3DIceCream(10,3).ordering_cone.W}
for i in range(4):
    m = 2+i%3; K = m + rng.integers(0,3)
    # random pointed cone containing ones direction
    W = rng.normal(size=(K,m)); W = W*np.sign(W@np.ones(m))[:,None]; W/=np.linalg.norm(W,axis=1,keepdims=True); cones[f"rnd{i}_{K}x{m}"]=W
for k,W in cones.items():
    u,d = ustar(W); ur,dr = ref(W)
    print(f"{k:12s} d1={d:.6f} ref={dr:.6f} |u-ur|={np.linalg.norm(u-ur):.2e} minWu={(W@u).min():.3e} alpha={get_alpha_vec(W).flatten().round(4)}")
