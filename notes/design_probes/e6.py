import warnings; warnings.filterwarnings("ignore")
import time, numpy as np, torch
import vopy.datasets.dataset as dsmod
from vopy.datasets.dataset import Dataset
from vopy.algorithms import *
from vopy.order import *
from vopy.utils import get_delta
np.random.seed(0); torch.manual_seed(0)

def make_ds(name, X, Y):
    class D(Dataset):
        _in_dim = X.shape[1]; _out_dim = Y.shape[1]; _cardinality = len(X)
        def __init__(self):
            self.in_data = X.copy(); self.out_data = Y.copy()
            super().__init__()
            self.in_data = X.copy(); self.out_data = Y.copy()   # exact values, bypass scaling
    D.__name__ = name
    setattr(dsmod, name, D)

class Stub:
    """posterior = truth + offset, tiny std"""
    def __init__(self, X, Y, std=1e-3): self.X=X; self.Y=Y; self.std=std; self.added=[]
    def predict(self, x):
        x = np.atleast_2d(x)[:, :self.X.shape[1]]
        idx = [int(np.argmin(((self.X - r)**2).sum(1))) for r in x]
        mu = self.Y[idx]; cov = np.array([np.eye(self.Y.shape[1])*self.std**2 for _ in idx])
        return mu, cov
    def add_sample(self, *a): self.added.append(a)
    def update(self): pass

order = ConeTheta2DOrder(135)
W = order.ordering_cone.W; alpha = order.ordering_cone.alpha
eps = 0.1
# direction d with W d = (1,1)
d = np.linalg.solve(W, np.ones(2))
lam = 1.2*eps
X = np.array([[0.0,0.0],[1.0,1.0],[0.5,0.25]])
Y = np.array([[0.0,0.0], lam*d, [-3.0,-3.0]])
make_ds("Tiny", X, Y)
print("true gaps", get_delta(Y, W, alpha).flatten(), "eps", eps)
t=time.time()
algo = PaVeBaGP(eps, 0.1, "Tiny", order, 0.01, conf_contraction=1, type="IH")
print("construct", time.time()-t)
algo.model = Stub(X, Y, std=1e-6)
for r in range(20):
    done = algo.run_one_step()
    # validity
    ok = all((algo.design_space.confidence_regions[i].lower <= Y[i]).all() and (Y[i] <= algo.design_space.confidence_regions[i].upper).all() for i in algo.S|algo.U|algo.P)
    print(r, "S",algo.S,"P",algo.P,"U",algo.U,"valid",ok)
    if done: break
print("final P", algo.P, "gaps of P", get_delta(Y,W,alpha).flatten()[list(algo.P)])
# K != m crash
try:
    o2 = ConeOrder3DIceCream(30,6)
    X3 = np.random.rand(4,2); Y3 = np.random.rand(4,3)
    make_ds("Tiny3", X3, Y3)
    a2 = PaVeBaGP(eps, 0.1, "Tiny3", o2, 0.01, conf_contraction=32, type="IH")
    for r in range(3): a2.run_one_step()
    print("no crash")
except Exception as e: print("K!=m:", type(e).__name__, e)
try:
    a3 = PaVeBaGP(eps, 0.1, "Tiny3", o2, 0.01, conf_contraction=32, type="DE")
    for r in range(3): a3.run_one_step()
    print("DE icecream ok", a3.S, a3.P)
except Exception as e: print("DE:", type(e).__name__, e)
try:
    a4 = VOGP(eps, 0.1, "Tiny3", o2, 0.01, conf_contraction=32, batch_size=3)
    for r in range(30):
        if a4.run_one_step(): break
    print("VOGP batch3 ok", a4.S, a4.P, a4.sample_count)
except Exception as e: print("VOGP batch:", type(e).__name__, e)
