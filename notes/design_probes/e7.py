import warnings; warnings.filterwarnings("ignore")
import time, numpy as np, torch
exec(open(__import__("os").path.join(__import__("os").path.dirname(__import__("os").path.abspath(__file__)),"e6.py")).read().split("order = ConeTheta2DOrder(135)")[0])
order = ConeTheta2DOrder(135)
W = order.ordering_cone.W; alpha = order.ordering_cone.alpha
eps = 0.1
d = np.linalg.solve(W, np.ones(2))
lam = 1.2*eps
X = np.array([[0.0,0.0],[1.0,1.0]])
Y = np.array([[0.0,0.0], lam*d])
make_ds("Tiny2", X, Y)
print("true gaps", get_delta(Y, W, alpha).flatten(), "eps", eps)
algo = PaVeBaGP(eps, 0.1, "Tiny2", order, 0.01, conf_contraction=1, type="IH")
class Stub2(Stub):
    def predict(self, x):
        mu, cov = super().predict(x)
        x = np.atleast_2d(x)[:, :self.X.shape[1]]
        idx = [int(np.argmin(((self.X - r)**2).sum(1))) for r in x]
        s = float(algo.compute_alpha())
        H = np.array([0.3, 0.3]); tiny = 1e-4
        mus=[];covs=[]
        for i in idx:
            if i == 0: mus.append(self.Y[0] + H - tiny); covs.append(np.diag((H/s)**2))
            else: mus.append(self.Y[1]); covs.append(np.eye(2)*(tiny/s)**2)
        return np.array(mus), np.array(covs)
algo.model = Stub2(X, Y)
for r in range(5):
    done = algo.run_one_step()
    regs = algo.design_space.confidence_regions
    ok = all((regs[i].lower <= Y[i]+1e-15).all() and (Y[i] <= regs[i].upper+1e-15).all() for i in range(2))
    print(r, "S",algo.S,"P",algo.P,"U",algo.U,"valid",ok, [ (regs[i].lower.round(4).tolist(), regs[i].upper.round(4).tolist()) for i in range(2)])
    if done: break
print("final P", algo.P, "gaps", get_delta(Y,W,alpha).flatten(), "eps", eps)
