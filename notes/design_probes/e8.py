import warnings; warnings.filterwarnings("ignore")
import numpy as np, torch
exec(open(__import__("os").path.join(__import__("os").path.dirname(__import__("os").path.abspath(__file__)),"e6.py")).read().split("order = ConeTheta2DOrder(135)")[0])
from vopy.algorithms import Auer, VOGP_AD
from vopy.maximization_problem import get_continuous_problem
# Auer: record which beta row is used for which design in pareto_updating
X = np.array([[0.,0.],[1.,0.],[0.,1.],[1.,1.],[.5,.5]]); Y = np.array([[0.,0.],[5.,5.],[0.2,0.1],[0.1,0.25],[0.05,0.3]])
make_ds("TinyA", X, Y)
a = Auer(0.05, 0.1, "TinyA", 0.01, conf_contraction=1, use_empirical_beta=True)
np.random.seed(3)
for r in range(3):
    S_before = list(a.S)
    a.round += 1; a.evaluating(); a.modeling()
    order_model = list(a.S); beta = a.beta_t.copy()
    a.discarding()
    order_after = list(a.S)
    print("round", a.round, "S at modeling", order_model, "S after discard", order_after)
    for pos, pt in enumerate(a.S):
        own = beta[order_model.index(pt)]
        used = beta[pos]
        print("   design", pt, "own beta", own.round(4), "used in pareto_updating", used.round(4), "same" if np.allclose(own, used) else "MISALIGNED")
    a.pareto_updating()
# VOGP_AD first step single-root update
np.random.seed(0); torch.manual_seed(0)
prob = get_continuous_problem("BraninCurrin", 1e-5)
v = VOGP_AD(0.2, 0.1, prob, ComponentwiseOrder(2), 1e-5, conf_contraction=128)
v.beta = v.compute_beta(); v.modeling()
mu, cov = v.model.predict(v.design_space.points[[0]]); 
mu2, cov2 = v.model.predict(np.vstack([v.design_space.points[[0]], v.design_space.points[[0]]]))
r = v.design_space.confidence_regions[0]
print("root region centre", r.center, "model mean at root", mu2[0], "pred N=1 shape", mu.shape)
