from fractions import Fraction as F
import itertools, random
def verts(lo,hi): return [tuple(p) for p in itertools.product(*[[l,h] for l,h in zip(lo,hi)])]
def matvec(W,v): return tuple(sum(w*x for w,x in zip(row,v)) for row in W)
def seg(P1,P2,pt,d):
    den = P2[d]-P1[d]
    if den == 0: return None
    t = (pt[d]-P1[d])/den
    if t<0 or t>1: return None
    return tuple(a+t*(b-a) for a,b in zip(P1,P2))
def in_ext(pt, poly):
    dim=len(pt)
    for v in poly:
        if all(a<=b for a,b in zip(v,pt)): return True
    for d in range(dim):
        for i,v1 in enumerate(poly):
            for j,v2 in enumerate(poly):
                if i==j: continue
                if v1[d] <= pt[d] <= v2[d]:
                    q = seg(v1,v2,pt,d)
                    if q is not None and all(a<=b for a,b in zip(q,pt)): return True
    return False
def truth(pt, lo, hi, W):
    # exists z in box: W z <= pt ; 2 vars. constraints a.z <= b
    cons = [((1,0),hi[0]),((-1,0),-lo[0]),((0,1),hi[1]),((0,-1),-lo[1])]
    for row,p in zip(W,pt): cons.append((tuple(row),p))
    cands=[]
    for (a1,b1),(a2,b2) in itertools.combinations(cons,2):
        det = a1[0]*a2[1]-a1[1]*a2[0]
        if det==0: continue
        x = (b1*a2[1]-a1[1]*b2)/det; y=(a1[0]*b2-b1*a2[0])/det
        cands.append((x,y))
    # feasible region bounded (box) and nonempty iff some vertex feasible
    for z in cands:
        if all(a[0]*z[0]+a[1]*z[1] <= b for a,b in cons): return True
    return False
random.seed(1)
cones = [[(1,0),(0,1)],[(-1,3),(3,-1)],[(1,2),(2,1)],[(-2,5),(5,-2)],[(1,5),(5,1)],[(-1,1),(2,-1)]]
bad=0; n=0; pos=0
for W in cones:
    W=[tuple(F(x) for x in r) for r in W]
    for _ in range(6000):
        lo=[F(random.randint(-4,4),2) for _ in range(2)]; hi=[l+F(random.randint(0,4),2) for l in lo]
        v1=[F(random.randint(-8,8),2) for _ in range(2)]
        pt = matvec(W,v1); poly=[matvec(W,v) for v in verts(lo,hi)]
        got=in_ext(pt,poly); tr=truth(pt,lo,hi,W); n+=1; pos+=tr
        if got!=tr:
            bad+=1
            if bad<6: print("MISMATCH",W,lo,hi,v1,got,tr)
print(n,pos,bad)
