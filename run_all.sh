#!/bin/bash
# ./run_all.sh [tier] [seed ...] : run every check once per seed; summary lines on stdout
tier=${1:-quick}; shift
seeds=${@:-0}
cd /verif
for s in $seeds; do
  for p in $(python3 -c "import json;print(' '.join(json.loads(l)['id'] for l in open('properties.jsonl')))"); do
    start=$(date +%s)
    out=$(VERIF_SEED=$s timeout 7200 ./check $p --tier $tier 2>&1 | grep -v "WARNING: This")
    rc=$?
    echo "$out" | grep -E "VIOLATION|KNOWN-FINDING|tier=" | cut -c1-220
  done
done
