#!/bin/bash
# apply every seeded defect to /repo in turn, run the checks listed in its meta.json, undo it
cd /verif
for d in seeded/C*; do
  id=$(basename $d)
  checks=$(python3 -c "import json;print(' '.join(json.load(open('$d/meta.json'))['checks_that_catch_it_quick_tier']))")
  git -C /repo apply /verif/$d/patch.diff || { echo "$id: patch does not apply"; continue; }
  for c in $checks; do
    out=$(timeout 1800 ./check $c 2>&1 | grep -v "WARNING: This")
    n=$(echo "$out" | grep -c "^VIOLATION")
    nf=$(echo "$out" | grep "^VIOLATION" | grep -vc "no-failing-input-found")
    echo "seeded $id check $c: violation_lines=$n with_concrete_replay=$nf  $(echo "$out" | grep 'tier=' | sed 's/.*obligations=/obligations=/')"
  done
  git -C /repo checkout -- .
done
git -C /repo status --short
