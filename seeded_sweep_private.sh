#!/bin/bash
# ./seeded_sweep_private.sh [-j N] [<id> ...] : like seeded_sweep.sh, but never touches /repo's working tree:
# for every seeded defect a scratch worktree of /repo (HEAD + the patch) and a private copy of /verif are made under /tmp,
# the checks named in seeded/<id>/meta.json run there (VOPY_REPO=<worktree>), and both are removed afterwards.
# Several defects can therefore be swept in parallel, and while other checks run against /repo.
J=4
if [ "$1" = "-j" ]; then J=$2; shift 2; fi
cd /verif
ids=${@:-$(ls seeded | grep '^C')}
one() {
  id=$1
  export OMP_NUM_THREADS=2 MKL_NUM_THREADS=2
  wt=/tmp/seeded_sweep/wt_$id; vc=/tmp/seeded_sweep/verif_$id
  mkdir -p /tmp/seeded_sweep; rm -rf $wt $vc; git -C /repo worktree prune
  for try in 1 2 3; do git -C /repo worktree add -q --detach $wt HEAD && break; sleep 2; done
  git -C $wt apply /verif/seeded/$id/patch.diff || { echo "seeded $id: patch does not apply"; git -C /repo worktree remove --force $wt; return; }
  rsync -a --exclude .git --exclude replays /verif/ $vc/
  checks=$(python3 -c "import json;print(' '.join(json.load(open('/verif/seeded/$id/meta.json'))['checks_that_catch_it_quick_tier']))")
  for c in $checks; do
    out=$(cd $vc && VOPY_REPO=$wt timeout 1800 ./check $c 2>&1 | grep -v "WARNING: This")
    n=$(echo "$out" | grep -c "^VIOLATION"); nf=$(echo "$out" | grep "^VIOLATION" | grep -vc "no-failing-input-found")
    echo "seeded $id check $c: violation_lines=$n with_concrete_replay=$nf  $(echo "$out" | grep 'tier=' | sed 's/.*obligations=/obligations=/; s/ wall=.*//')"
  done
  git -C /repo worktree remove --force $wt; rm -rf $vc
}
export -f one
echo $ids | tr ' ' '\n' | xargs -P $J -I{} bash -c 'one {}'
git -C /repo worktree prune
