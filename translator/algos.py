"""algos.py — idiom recognisers for the set-transition methods of the elimination algorithms.

Accepted statement forms (anything else => Reject):
  NAME = <setexpr>                       setexpr ::= self.S | self.P | self.U | NAME | a.union(b) | a.difference(b)
                                                   | self.compute_pessimistic_set()
  NAME = [] | NAME = set() | self.U = set()                 (accumulator)
  for V in <setexpr>:                                        (one loop nest per accumulator)
      [V_conf = self.design_space.confidence_regions[V]]
      for V2 in <setexpr>:
          [if V2 == V: continue]
          [V2_conf = self.design_space.confidence_regions[V2]]
          if PRED(self.order, c1, c2[, slack]):
              [ACC.append(V) | ACC.add(V)]      -- exists-form
              break
      [else: ACC.append(V) | ACC.add(V)]         -- forall-form (no hit)
  for V in ACC: self.S.remove(V) [; self.P.add(V)]
  return NAME
"""
import ast
from py2coq import Reject, clean_body

PREDS = {"confidence_region_is_dominated": "is_dominated", "confidence_region_is_covered": "is_covered",
         "confidence_region_check_dominates": "check_dominates"}
SLACKS = {"0": "slack_zero", "self.cone_alpha_eps": "cone_alpha_eps", "self.u_star_eps": "u_star_eps", "self.epsilon": "epsilon_slack"}
CONF = "self.design_space.confidence_regions"


class M:
    def __init__(self, where, prefix=''):
        self.where = where
        self.prefix = prefix
        self.sets = {"self.S": "S", "self.P": "P", "self.U": "U"}
        self.lets = []          # (name, gallina)
        self.accs = {}          # acc name -> gallina sel name
        self.defs = []          # (name, gallina body)
        self.effects = []       # (kind, accname)
        self.ret = None
        self.n = 0

    def rej(self, node, why):
        raise Reject(self.where, f"line {getattr(node, 'lineno', '?')}: {why}: `{ast.unparse(node)[:110]}`")

    def setexpr(self, n):
        key = ast.unparse(n)
        if key in self.sets:
            return self.sets[key]
        if isinstance(n, ast.Call) and isinstance(n.func, ast.Attribute) and n.func.attr in ("union", "difference") and len(n.args) == 1:
            f = "union" if n.func.attr == "union" else "diff"
            return f"({f} {self.setexpr(n.func.value)} {self.setexpr(n.args[0])})"
        if key == "self.compute_pessimistic_set()":
            return f"({self.prefix}_compute_pessimistic_set E S P U)"
        self.rej(n, "unsupported set expression")

    def pred(self, test, confs):
        neg = False
        if isinstance(test, ast.UnaryOp) and isinstance(test.op, ast.Not):
            neg, test = True, test.operand
        if not (isinstance(test, ast.Call) and isinstance(test.func, ast.Name) and test.func.id in PREDS):
            self.rej(test, "condition is not a confidence-region predicate call")
        name = PREDS[test.func.id]
        args = test.args
        want = 3 if name == "check_dominates" else 4
        if test.keywords or len(args) != want or ast.unparse(args[0]) != "self.order":
            self.rej(test, "unexpected predicate arguments")
        rs = []
        for a in args[1:3]:
            k = ast.unparse(a)
            if k in confs:
                rs.append(f"(conf E {confs[k]})")
            elif isinstance(a, ast.Subscript) and ast.unparse(a.value) == CONF and ast.unparse(a.slice) in confs.values():
                rs.append(f"(conf E {ast.unparse(a.slice)})")
            else:
                self.rej(a, "region argument is not a bound confidence region")
        s = ""
        if want == 4:
            sk = ast.unparse(args[3])
            if sk not in SLACKS:
                self.rej(args[3], "unknown slack expression")
            s = f" ({SLACKS[sk]} E)"
        t = f"{name} E {rs[0]} {rs[1]}{s}"
        return f"negb ({t})" if neg else t

    def loop(self, st):
        v = st.target.id if isinstance(st.target, ast.Name) else self.rej(st, "loop target")
        outer = self.setexpr(st.iter)
        if st.orelse:
            self.rej(st, "outer loop has an else clause")
        confs = {}
        body = list(st.body)
        if body and self.is_conf_bind(body[0], v):
            confs[body[0].targets[0].id] = v
            body = body[1:]
        if len(body) != 1 or not isinstance(body[0], ast.For):
            self.rej(st, "outer loop body is not a single inner loop")
        inner = body[0]
        v2 = inner.target.id if isinstance(inner.target, ast.Name) else self.rej(inner, "loop target")
        inner_set = self.setexpr(inner.iter)
        ib = list(inner.body)
        guard = ""
        if ib and isinstance(ib[0], ast.If) and len(ib[0].body) == 1 and isinstance(ib[0].body[0], ast.Continue) and not ib[0].orelse:
            t = ib[0].test
            if not (isinstance(t, ast.Compare) and len(t.ops) == 1 and isinstance(t.ops[0], ast.Eq)
                    and {ast.unparse(t.left), ast.unparse(t.comparators[0])} == {v, v2}):
                self.rej(ib[0], "continue guard is not `inner == outer`")
            guard = f"negb (Nat.eqb {ast.unparse(t.left)} {ast.unparse(t.comparators[0])}) && "
            ib = ib[1:]
        if ib and self.is_conf_bind(ib[0], v2):
            confs[ib[0].targets[0].id] = v2
            ib = ib[1:]
        if len(ib) != 1 or not isinstance(ib[0], ast.If) or ib[0].orelse:
            self.rej(inner, "inner loop body is not a single predicate test")
        test = ib[0]
        hit = list(test.body)
        if not hit or not isinstance(hit[-1], ast.Break):
            self.rej(test, "predicate branch does not end with break")
        hit = hit[:-1]
        p = self.pred(test.test, confs)
        ex = f"existsb (fun {v2} => {guard}{p}) {inner_set}"
        if hit and not inner.orelse:
            acc = self.acc_of(hit, v)
            body_g = f"filter (fun {v} => {ex}) {outer}"
        elif not hit and inner.orelse:
            acc = self.acc_of(inner.orelse, v)
            body_g = f"filter (fun {v} => negb ({ex})) {outer}"
        else:
            self.rej(inner, "neither exists-form (append; break) nor forall-form (for..else append)")
        return acc, body_g

    def is_conf_bind(self, s, var):
        return (isinstance(s, ast.Assign) and len(s.targets) == 1 and isinstance(s.targets[0], ast.Name)
                and isinstance(s.value, ast.Subscript) and ast.unparse(s.value.value) == CONF and ast.unparse(s.value.slice) == var)

    def acc_of(self, stmts, v):
        if len(stmts) != 1 or not isinstance(stmts[0], ast.Expr) or not isinstance(stmts[0].value, ast.Call):
            self.rej(stmts[0] if stmts else None, "expected a single append/add")
        c = stmts[0].value
        if not (isinstance(c.func, ast.Attribute) and c.func.attr in ("append", "add") and len(c.args) == 1 and ast.unparse(c.args[0]) == v):
            self.rej(c, "expected ACC.append(loop variable)")
        return ast.unparse(c.func.value)


def translate_method(fn, name, where, prefix=''):
    """returns (sel definitions, new-state expression) as Gallina text"""
    m = M(where, name.rsplit('_', 1)[0] if False else prefix)
    body = clean_body(fn)
    out_defs = []
    state = {"S": "S", "P": "P", "U": "U"}
    ret = None
    i = 0
    lets = []
    while i < len(body):
        st = body[i]
        if isinstance(st, ast.Assign) and len(st.targets) == 1:
            tgt = ast.unparse(st.targets[0])
            val = ast.unparse(st.value)
            if val in ("[]", "set()"):
                m.accs[tgt] = None
            else:
                g = m.setexpr(st.value)
                if not isinstance(st.targets[0], ast.Name):
                    m.rej(st, "assignment target")
                m.sets[tgt] = tgt
                lets.append((tgt, g))
        elif isinstance(st, ast.For) and isinstance(st.iter, ast.Name) and st.iter.id in m.accs and m.accs[st.iter.id] is not None and ast.unparse(st.iter) != "self.S":
            # effects loop
            acc = st.iter.id
            v = st.target.id
            for e in st.body:
                k = ast.unparse(e)
                if k == f"self.S.remove({v})":
                    state["S"] = f"(diff {state['S']} {m.accs[acc]})"
                elif k == f"self.P.add({v})":
                    state["P"] = f"(union {state['P']} {m.accs[acc]})"
                else:
                    m.rej(e, "unsupported effect")
        elif isinstance(st, ast.For):
            acc, g = m.loop(st)
            if acc not in m.accs:
                m.rej(st, f"accumulator {acc} not initialised")
            sel = f"{name}_sel"
            if any(d[0] == sel for d in out_defs):
                m.rej(st, "more than one loop nest")
            letsrc = "".join(f"let {a} := {b} in\n  " for a, b in lets)
            out_defs.append((sel, letsrc + g))
            m.accs[acc] = f"({sel} E S P U)"
            if acc == "self.U":
                state["U"] = m.accs[acc]
        elif isinstance(st, ast.Return):
            k = ast.unparse(st.value)
            if k in m.accs and m.accs[k]:
                ret = m.accs[k]
            else:
                m.rej(st, "unsupported return")
        else:
            m.rej(st, "unsupported statement")
        i += 1
    txt = ""
    for sel, g in out_defs:
        txt += f"Definition {sel} (E : penv) (S P U : list nat) : list nat :=\n  {g}.\n"
    if ret is not None:
        txt += f"Definition {name} (E : penv) (S P U : list nat) : list nat := {ret}.\n"
    else:
        txt += f"Definition {name} (E : penv) (S P U : list nat) : list nat * list nat * list nat :=\n  ({state['S']}, {state['P']}, {state['U']}).\n"
    return txt


ALGOS = {
    "paveba": ("vopy/algorithms/paveba.py", "PaVeBa", ["discarding", "pareto_updating", "useful_updating"]),
    "paveba_gp": ("vopy/algorithms/paveba_gp.py", "PaVeBaGP", ["discarding", "pareto_updating", "useful_updating"]),
    "paveba_partial_gp": ("vopy/algorithms/paveba_partial_gp.py", "PaVeBaPartialGP", ["discarding", "pareto_updating", "useful_updating"]),
    "vogp": ("vopy/algorithms/vogp.py", "VOGP", ["compute_pessimistic_set", "discarding", "epsiloncovering"]),
    "epal": ("vopy/algorithms/epal.py", "EpsilonPAL", ["compute_pessimistic_set", "discarding", "epsiloncovering"]),
    "vogp_ad": ("vopy/algorithms/vogp_ad.py", "VOGP_AD", ["compute_pessimistic_set", "discarding"]),
}

PAVEBA_MODELING = """
self.r_t = self.compute_radius()
A = M_set
self.design_space.update(self.model, self.r_t, list(A))
"""
PAVEBA_EVALUATING = """
A = M_set
active_pts = self.design_space.points[list(A)]
observations = self.problem.evaluate(active_pts[:, :-1])
self.sample_count += len(A)
self.model.add_sample(A, observations)
self.model.update()
"""


def paveba_active_sets(src):
    """PaVeBa: which designs modeling() rebuilds and which designs evaluating() samples (and that the
    observations are stored under the same iteration of the same set that was queried)"""
    from py2coq import match_stmts
    rel = "vopy/algorithms/paveba.py"
    out = f"(* {rel}:PaVeBa.modeling / PaVeBa.evaluating *)\n"
    for meth, tpl, name in (("modeling", PAVEBA_MODELING, "paveba_modeled"), ("evaluating", PAVEBA_EVALUATING, "paveba_sampled")):
        where = f"{rel}:PaVeBa.{meth}"
        b = match_stmts(tpl, clean_body(src.func(rel, f"PaVeBa.{meth}")), where)
        g = M(where, "paveba").setexpr(b["M_set"])
        out += f"Definition {name} (S P U : list nat) : list nat := {g}.\n"
    out += "(* evaluating(): points[list(A)] are queried and add_sample(A, observations) stores them: one set, one iteration order *)\n"
    out += "Definition paveba_queries_and_stores_same_set : bool := true.\n"
    return out


VOGP_AD_GATE = """
if not self.enable_epsilon_covering:
    for design_i in self.S:
        if self.design_space.point_depths[design_i] != self.max_discretization_depth:
            return
    else:
        self.enable_epsilon_covering = True
"""
VOGP_AD_REFINE = """
W = self.S.union(self.P)
acq = MaxDiagonalAcquisition(self.design_space)
active_pts = self.design_space.points[list(W)]
candidate_list, _ = optimize_acqf_discrete(acq, self.batch_size, choices=active_pts)
candidate_pt = candidate_list[0]
candidate_i = np.where(np.all(self.design_space.points == candidate_pt, axis=1))[0].item()
should_refine = self.design_space.should_refine_design(self.model, candidate_i, self.beta)
if should_refine:
    child_designs = self.design_space.refine_design(candidate_i)
    if candidate_i in self.S:
        self.S.remove(candidate_i)
        self.S = self.S.union(child_designs)
    else:
        self.P.remove(candidate_i)
        self.P = self.P.union(child_designs)
else:
    observations = self.problem.evaluate(candidate_list)
    self.sample_count += len(candidate_list)
    self.model.add_sample(candidate_list, observations)
    self.model.update()
"""


def vogp_ad_gated(src):
    """VOGP_AD.epsiloncovering = depth gate (latched) + the covering loop nest; evaluate_refine's set bookkeeping"""
    from py2coq import match_stmts
    rel = "vopy/algorithms/vogp_ad.py"
    where = f"{rel}:VOGP_AD.epsiloncovering"
    fn = src.func(rel, "VOGP_AD.epsiloncovering")
    body = clean_body(fn)
    if not body:
        raise Reject(where, "empty body")
    match_stmts(VOGP_AD_GATE, body[:1], where)
    # the rest is the standard covering nest: translate it as a method of its own
    rest = ast.FunctionDef(name="epsiloncovering_body", args=fn.args, body=body[1:], decorator_list=[], returns=None, lineno=fn.lineno)
    txt = f"(* {where} *)\n"
    txt += "Definition vogp_ad_gate (depth : nat -> nat) (maxd : nat) (enabled : bool) (S : list nat) : bool :=\n  enabled || forallb (fun design_i => Nat.eqb (depth design_i) maxd) S.\n"
    txt += translate_method(rest, "vogp_ad_epsiloncovering_body", where, "vogp_ad")
    txt += ("Definition vogp_ad_epsiloncovering (E : penv) (depth : nat -> nat) (maxd : nat) (enabled : bool) (S P U : list nat)\n"
            "  : bool * (list nat * list nat * list nat) :=\n"
            "  if vogp_ad_gate depth maxd enabled S then (true, vogp_ad_epsiloncovering_body E S P U) else (enabled, (S, P, U)).\n")
    where2 = f"{rel}:VOGP_AD.evaluate_refine"
    match_stmts(VOGP_AD_REFINE, clean_body(src.func(rel, "VOGP_AD.evaluate_refine")), where2)
    txt += f"(* {where2}: the node chosen is refined (replaced by its children in the set it belongs to) or sampled *)\n"
    txt += ("Definition vogp_ad_refine_sets (candidate_i : nat) (child_designs S P : list nat) : list nat * list nat :=\n"
            "  if mem candidate_i S then (union (diff S [candidate_i]) child_designs, P)\n"
            "  else (S, union (diff P [candidate_i]) child_designs).\n")
    return txt


EVAL_SINGLE = """
M_A = M_set
acq = M_acq
active_pts = self.design_space.points[list(M_A)]
candidate_list, _ = optimize_acqf_discrete(acq, self.batch_size, choices=active_pts)
observations = self.problem.evaluate(candidate_list)
self.sample_count += len(candidate_list)
self.model.add_sample(candidate_list, observations)
self.model.update()
"""
EVAL_DECOUPLED = """
M_A = M_set
acq = M_acq
active_pts = self.design_space.points[list(M_A)]
candidate_list, acq_values, eval_indices = optimize_decoupled_acqf_discrete(acq, self.batch_size, choices=active_pts)
observations = self.problem.evaluate(candidate_list, eval_indices)
self.sample_count += len(candidate_list)
if self.costs is not None:
    self.total_cost += np.sum(self.costs[eval_indices])
self.model.add_sample(candidate_list, observations, eval_indices)
self.model.update()
"""
ACQS = {"MaxDiagonalAcquisition(self.design_space)": "AcqMaxDiagonal", "SumVarianceAcquisition(self.model)": "AcqSumVariance",
        "MaxVarianceDecoupledAcquisition(self.model, costs=self.costs)": "AcqMaxVarianceDecoupled"}


def gp_evaluating(src, a, rel, cls):
    """evaluating() of the GP algorithms: choices = points of the active set, batch picked by the acquisition optimiser,
    exactly the picked candidates are evaluated / counted / (costed) / stored"""
    from py2coq import match_stmts
    where = f"{rel}:{cls}.evaluating"
    body = clean_body(src.func(rel, f"{cls}.evaluating"))
    dec = a == "paveba_partial_gp"
    b = match_stmts(EVAL_DECOUPLED if dec else EVAL_SINGLE, body, where)
    acq = ast.unparse(b["M_acq"])
    if acq not in ACQS:
        raise Reject(where, f"unknown acquisition `{acq}`")
    g = M(where, a).setexpr(b["M_set"])
    return (f"(* {where} *)\nDefinition {a}_evaluating (S P U : list nat) : eflow :=\n"
            f"  mkeflow {g} {ACQS[acq]} {'true' if dec else 'false'} true.\n")


MODELING_WITH_SCALE = """
self.ATTR = self.COMPUTE()
M_A = M_set
self.design_space.update(self.model, self.ATTR, list(M_A))
"""
MODELING_PLAIN = """
M_A = M_set
self.design_space.update(self.model, self.beta, list(M_A))
"""


def gp_modeling(src, a, rel, cls):
    """modeling() of the GP algorithms: the designs whose regions are rebuilt this round (with the freshly computed scale)"""
    from py2coq import match_stmts
    where = f"{rel}:{cls}.modeling"
    body = clean_body(src.func(rel, f"{cls}.modeling"))
    if a == "vogp_ad":
        tpl = MODELING_PLAIN
    else:
        attr, comp = {"vogp": ("beta", "compute_beta"), "epal": ("beta", "compute_beta"), "paveba_gp": ("alpha_t", "compute_alpha"),
                      "paveba_partial_gp": ("alpha_t", "compute_alpha")}[a]
        tpl = MODELING_WITH_SCALE.replace("ATTR", attr).replace("COMPUTE", comp)
    b = match_stmts(tpl, body, where)
    g = M(where, a).setexpr(b["M_set"])
    return f"(* {where} *)\nDefinition {a}_modeled (S P U : list nat) : list nat := {g}.\n"


SECTION_HDR = """(* ---------------- {a} ---------------- *)
"""


def run(src, out, hdr):
    f = "Gen_algos.v"
    hdr[f] = ("(* GENERATED by /verif/translator (py2coq.py, algos.py) from vopy/algorithms/*.py — do not edit. *)\n"
              "From Coq Require Import List Bool Arith.\nFrom VOPy Require Import Spec.\nImport ListNotations.\n\n")
    for a, (rel, cls, methods) in ALGOS.items():
        out.add(f, SECTION_HDR.format(a=a))
        for meth in methods:
            def thunk(rel=rel, cls=cls, meth=meth, a=a):
                fn = src.func(rel, f"{cls}.{meth}")
                return f"(* {rel}:{cls}.{meth} *)\n" + translate_method(fn, f"{a}_{meth}", f"{rel}:{cls}.{meth}", a)
            out.attempt(f, f"{a}.{meth}", thunk)
    out.attempt(f, "paveba.active_sets", lambda: paveba_active_sets(src))
    for a in ("paveba_gp", "paveba_partial_gp", "vogp", "epal"):
        rel, cls, _ = ALGOS[a]
        out.attempt(f, f"{a}.evaluating", lambda a=a, rel=rel, cls=cls: gp_evaluating(src, a, rel, cls))
    out.attempt(f, "vogp_ad.gated_covering", lambda: vogp_ad_gated(src))
    for a in ("paveba_gp", "paveba_partial_gp", "vogp", "epal", "vogp_ad"):
        rel, cls, _ = ALGOS[a]
        out.attempt(f, f"{a}.modeling", lambda a=a, rel=rel, cls=cls: gp_modeling(src, a, rel, cls))
