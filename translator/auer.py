"""auer.py — translator for vopy/algorithms/auer.py (Auer's elimination with numeric gap tests).

Accepted forms (anything else => Reject):
  small_m / big_m:  `return <scalar>` with
      scalar ::= max(0, scalar) | np.min(vector) | np.max(vector)
      vector ::= i | j | vector - vector | vector + self.epsilon | (vector)
  modeling:  the five statements that build beta_t, the per-design row map `beta_row`, and pass
      `list(self.S)` to design_space.update (regions and width rows share one enumeration of S)
  discarding / pareto_updating: loop nests
      for [IDX,] V in enumerate(self.S) | zip(ACCi, ACC):
          V_conf = self.design_space.confidence_regions[V]
          V_beta = self.beta_t[self.beta_row[V]]
          for [IDX2,] V2 in enumerate(self.S):
              if V2 == V: continue | if V2 in ACC: continue
              V2_conf = ... ; V2_beta = ...
              beta = A_beta + B_beta
              if np.all(self.small_m|big_m(X_conf.center, Y_conf.center) OP beta):
                  [ACC.append(V)] ; break
          [else: ACC.append(V) [; ACCi.append(IDX)]]
      for V in ACC: self.S.remove(V) [; self.P.add(V)]
"""
import ast
from py2coq import Reject, clean_body, match_stmts

REL = "vopy/algorithms/auer.py"
CONF = "self.design_space.confidence_regions"


def rej(where, node, why):
    raise Reject(where, f"line {getattr(node, 'lineno', '?')}: {why}: `{ast.unparse(node)[:110] if node is not None else ''}`")


# ------------------------------------------------------------------ small_m / big_m
def vec_expr(n, args, where):
    if isinstance(n, ast.Name) and n.id in args:
        return n.id
    if isinstance(n, ast.BinOp) and isinstance(n.op, ast.Sub):
        return f"(vsub {vec_expr(n.left, args, where)} {vec_expr(n.right, args, where)})"
    if isinstance(n, ast.BinOp) and isinstance(n.op, ast.Add) and ast.unparse(n.right) == "self.epsilon":
        return f"(map (fun x => x + a_eps A) {vec_expr(n.left, args, where)})"
    rej(where, n, "unsupported vector expression")


def scal_expr(n, args, where):
    if isinstance(n, ast.Call) and not n.keywords:
        f = ast.unparse(n.func)
        if f == "max" and len(n.args) == 2 and ast.unparse(n.args[0]) == "0":
            return f"(qmax 0 {scal_expr(n.args[1], args, where)})"
        if f in ("np.min", "np.max") and len(n.args) == 1:
            return f"({'vmin_list' if f == 'np.min' else 'vmax_list'} {vec_expr(n.args[0], args, where)})"
    rej(where, n, "unsupported scalar expression")


def gap_fn(src, name):
    where = f"{REL}:Auer.{name}"
    fn = src.func(REL, f"Auer.{name}")
    body = clean_body(fn)
    args = [a.arg for a in fn.args.args[1:]]
    if len(args) != 2 or len(body) != 1 or not isinstance(body[0], ast.Return):
        rej(where, fn, "expected a two-argument function with a single return")
    g = scal_expr(body[0].value, args, where)
    return f"(* {where} *)\nDefinition auer_{name} (A : aenv) ({args[0]} {args[1]} : vec) : Q := {g}.\n"


# ------------------------------------------------------------------ modeling
MODELING = """
self.beta_t = self.compute_beta()
self.beta_row = {pt: pt_i for pt_i, pt in enumerate(self.S)}
self.model.track_variances = self.use_empirical_beta and False
self.design_space.update(self.model, self.beta_t, list(self.S))
self.model.track_variances = self.use_empirical_beta and True
"""


def modeling(src):
    where = f"{REL}:Auer.modeling"
    fn = src.func(REL, "Auer.modeling")
    match_stmts(MODELING, clean_body(fn), where)
    return (f"(* {where} *)\n"
            "(* beta_row = {pt: pt_i for pt_i, pt in enumerate(S)};  design_space.update(model, beta_t, list(S)) *)\n"
            "Definition auer_beta_row (S : list nat) : list (nat * nat) := combine S (seq 0 (length S)).\n"
            "Definition auer_update_row (S : list nat) : list (nat * nat) := combine S (seq 0 (length S)).\n")


# ------------------------------------------------------------------ loop nests
class T:
    def __init__(self, where):
        self.where = where
        self.accs = {}       # accumulator name -> gallina (None until filled)
        self.alias = {}      # index accumulators filled in lock-step with a point accumulator

    def binds(self, stmts, v, confs, betas):
        """consume leading `X = CONF[v]` / `X = self.beta_t[self.beta_row[v]]` statements"""
        i = 0
        while i < len(stmts):
            s = stmts[i]
            if not (isinstance(s, ast.Assign) and len(s.targets) == 1 and isinstance(s.targets[0], ast.Name)):
                break
            val = ast.unparse(s.value)
            if val == f"{CONF}[{v}]":
                confs[s.targets[0].id] = v
            elif val == f"self.beta_t[self.beta_row[{v}]]":
                betas[s.targets[0].id] = v
            else:
                break
            i += 1
        return stmts[i:]

    def target(self, st):
        t, it = st.target, st.iter
        if isinstance(it, ast.Call) and ast.unparse(it.func) == "enumerate" and len(it.args) == 1 and ast.unparse(it.args[0]) == "self.S":
            if not (isinstance(t, ast.Tuple) and len(t.elts) == 2 and all(isinstance(e, ast.Name) for e in t.elts)):
                rej(self.where, st, "enumerate target")
            return t.elts[1].id, t.elts[0].id, "S"
        if isinstance(it, ast.Call) and ast.unparse(it.func) == "zip" and len(it.args) == 2:
            a, b = ast.unparse(it.args[0]), ast.unparse(it.args[1])
            if self.alias.get(a) != b or not self.accs.get(b):
                rej(self.where, st, "zip over accumulators that were not filled in lock-step")
            if not (isinstance(t, ast.Tuple) and len(t.elts) == 2):
                rej(self.where, st, "zip target")
            return t.elts[1].id, t.elts[0].id, self.accs[b]
        if isinstance(it, ast.Attribute) and ast.unparse(it) == "self.S" and isinstance(t, ast.Name):
            return t.id, None, "S"
        rej(self.where, st, "unsupported loop header")

    def cond(self, test, confs, betas, beta_def):
        if not (isinstance(test, ast.Call) and ast.unparse(test.func) == "np.all" and len(test.args) == 1 and not test.keywords
                and isinstance(test.args[0], ast.Compare) and len(test.args[0].ops) == 1):
            rej(self.where, test, "condition is not np.all(<gap> OP beta)")
        cmp = test.args[0]
        lhs, rhs, op = cmp.left, cmp.comparators[0], cmp.ops[0]
        if not (isinstance(rhs, ast.Name) and rhs.id == "beta" and beta_def):
            rej(self.where, test, "right-hand side is not the summed width `beta`")
        if not (isinstance(lhs, ast.Call) and ast.unparse(lhs.func) in ("self.small_m", "self.big_m") and len(lhs.args) == 2):
            rej(self.where, lhs, "left-hand side is not small_m/big_m")
        cs = []
        for a in lhs.args:
            if not (isinstance(a, ast.Attribute) and a.attr == "center" and isinstance(a.value, ast.Name) and a.value.id in confs):
                rej(self.where, a, "gap argument is not the centre of a bound region")
            cs.append(f"(a_center A {confs[a.value.id]})")
        gap = f"auer_{ast.unparse(lhs.func)[5:]} A {cs[0]} {cs[1]}"
        ops = {ast.Gt: f"Qlt_b b ({gap})", ast.Lt: f"Qlt_b ({gap}) b", ast.LtE: f"Qle_bool ({gap}) b", ast.GtE: f"Qle_bool b ({gap})"}
        if type(op) not in ops:
            rej(self.where, test, "unsupported comparison")
        return f"forallb (fun b => {ops[type(op)]}) {beta_def}"

    def nest(self, st):
        v, idx, outer = self.target(st)
        if st.orelse:
            rej(self.where, st, "outer loop has an else clause")
        confs, betas = {}, {}
        body = self.binds(list(st.body), v, confs, betas)
        if len(body) != 1 or not isinstance(body[0], ast.For):
            rej(self.where, st, "outer loop body is not binds + a single inner loop")
        inner = body[0]
        v2, idx2, inner_set = self.target(inner)
        ib = list(inner.body)
        if not (ib and isinstance(ib[0], ast.If) and len(ib[0].body) == 1 and isinstance(ib[0].body[0], ast.Continue) and not ib[0].orelse):
            rej(self.where, inner, "inner loop does not start with a continue guard")
        t = ib[0].test
        if isinstance(t, ast.Compare) and len(t.ops) == 1 and isinstance(t.ops[0], ast.Eq) and {ast.unparse(t.left), ast.unparse(t.comparators[0])} == {v, v2}:
            guard = f"negb (Nat.eqb {ast.unparse(t.left)} {ast.unparse(t.comparators[0])})"
        elif (isinstance(t, ast.Compare) and len(t.ops) == 1 and isinstance(t.ops[0], ast.In) and ast.unparse(t.left) == v2
              and self.accs.get(ast.unparse(t.comparators[0]))):
            guard = f"negb (mem {v2} {self.accs[ast.unparse(t.comparators[0])]})"
        else:
            rej(self.where, ib[0], "unsupported continue guard")
        ib = self.binds(ib[1:], v2, confs, betas)
        if not (len(ib) == 2 and isinstance(ib[0], ast.Assign) and ast.unparse(ib[0].targets[0]) == "beta"
                and isinstance(ib[0].value, ast.BinOp) and isinstance(ib[0].value.op, ast.Add)
                and all(isinstance(x, ast.Name) and x.id in betas for x in (ib[0].value.left, ib[0].value.right))):
            rej(self.where, inner, "expected `beta = <row> + <row>` followed by the test")
        beta_def = f"(vadd (a_beta A {betas[ib[0].value.left.id]}) (a_beta A {betas[ib[0].value.right.id]}))"
        test = ib[1]
        if not isinstance(test, ast.If) or test.orelse or not test.body or not isinstance(test.body[-1], ast.Break):
            rej(self.where, test, "test branch does not end with break")
        p = self.cond(test.test, confs, betas, beta_def)
        ex = f"existsb (fun {v2} => {guard} && {p}) {inner_set}"
        hit = test.body[:-1]
        if hit and not inner.orelse:
            acc = self.appends(hit, v, idx)
            return acc, f"filter (fun {v} => {ex}) {outer}"
        if not hit and inner.orelse:
            acc = self.appends(inner.orelse, v, idx)
            return acc, f"filter (fun {v} => negb ({ex})) {outer}"
        rej(self.where, inner, "neither exists-form nor forall-form")

    def appends(self, stmts, v, idx):
        names = {}
        for s in stmts:
            if not (isinstance(s, ast.Expr) and isinstance(s.value, ast.Call) and isinstance(s.value.func, ast.Attribute)
                    and s.value.func.attr == "append" and len(s.value.args) == 1):
                rej(self.where, s, "expected ACC.append(...)")
            names[ast.unparse(s.value.args[0])] = ast.unparse(s.value.func.value)
        if v not in names or any(k not in (v, idx) for k in names):
            rej(self.where, stmts[0], "accumulators must collect the loop variable (and its index)")
        if idx in names:
            self.alias[names[idx]] = names[v]
        return names[v]


def method(src, name):
    where = f"{REL}:Auer.{name}"
    fn = src.func(REL, f"Auer.{name}")
    tr = T(where)
    body = clean_body(fn)
    S, P = "S", "P"
    defs = []
    for st in body:
        if isinstance(st, ast.Assign) and len(st.targets) == 1 and ast.unparse(st.value) == "[]":
            tr.accs[ast.unparse(st.targets[0])] = None
        elif isinstance(st, ast.For) and isinstance(st.iter, ast.Name) and tr.accs.get(st.iter.id):
            v = st.target.id
            for e in st.body:
                k = ast.unparse(e)
                if k == f"self.S.remove({v})":
                    S = f"(diff {S} {tr.accs[st.iter.id]})"
                elif k == f"self.P.add({v})":
                    P = f"(union {P} {tr.accs[st.iter.id]})"
                else:
                    rej(where, e, "unsupported effect")
        elif isinstance(st, ast.For):
            acc, g = tr.nest(st)
            if acc not in tr.accs or tr.accs[acc] is not None:
                rej(where, st, f"accumulator {acc} not initialised / filled twice")
            sel = f"auer_{name}_sel{len(defs) + 1}"
            defs.append(f"Definition {sel} (A : aenv) (S : list nat) : list nat :=\n  {g}.\n")
            tr.accs[acc] = f"({sel} A S)"
        else:
            rej(where, st, "unsupported statement")
    txt = f"(* {where} *)\n" + "".join(defs)
    txt += f"Definition auer_{name} (A : aenv) (S P : list nat) : list nat * list nat := ({S}, {P}).\n"
    return txt


def run(src, out, hdr):
    f = "Gen_auer.v"
    hdr[f] = ("(* GENERATED by /verif/translator (py2coq.py, auer.py) from vopy/algorithms/auer.py — do not edit. *)\n"
              "From Coq Require Import QArith List Bool Arith.\nFrom VOPy Require Import QVec Spec Tables.\nImport ListNotations.\nOpen Scope Q_scope.\n\n")
    out.attempt(f, "auer.small_m", lambda: gap_fn(src, "small_m"))
    out.attempt(f, "auer.big_m", lambda: gap_fn(src, "big_m"))
    out.attempt(f, "auer.modeling", lambda: modeling(src))
    out.attempt(f, "auer.discarding", lambda: method(src, "discarding"))
    out.attempt(f, "auer.pareto_updating", lambda: method(src, "pareto_updating"))
