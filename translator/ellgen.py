"""ellgen.py — the conic problems posed by EllipsoidalConfidenceRegion.is_dominated / is_covered (vopy/confidence_region.py),
as propositions over R.  Whole-method templates; the membership constraints, the objective, the rejection test and the cone
constraint are compiled from the cvxpy expressions in the source (sqrtm(inv(sigma)) is the named precision square root e_psqrt)."""
import ast
from py2coq import Reject, clean_body, match_stmts

REL = "vopy/confidence_region.py"
DOM = """
output_dim = len(obj1.center)
cone_matrix = order.ordering_cone.W
if np.array(slackness).size == 1:
    slackness = np.array([slackness] * cone_matrix.shape[0])
if slackness.size != cone_matrix.shape[0]:
    raise ValueError(M_msg)
mux = cp.Variable(output_dim)
muy = cp.Variable(output_dim)
cons1 = M_c1
cons2 = M_c2
constraints = [cons1, cons2]
for n in range(cone_matrix.shape[0]):
    objective = cp.Minimize(M_obj)
    prob = cp.Problem(objective, constraints)
    try:
        prob.solve()
    except cp.error.SolverError:
        prob.solve(solver=cp.SCS)
    if M_rej:
        return False
return True
"""
COV = """
cone_matrix = order.ordering_cone.W
output_dim = cone_matrix.shape[1]
if np.array(slackness).size != 1 and slackness.size != cone_matrix.shape[0]:
    raise ValueError(M_msg)
mux = cp.Variable(output_dim)
muy = cp.Variable(output_dim)
cons1 = M_c1
cons2 = M_c2
cons3 = M_c3
constraints = [cons1, cons2, cons3]
objective = cp.Minimize(0)
prob = cp.Problem(objective, constraints)
try:
    prob.solve()
except cp.error.SolverError:
    prob.solve(solver=cp.SCS)
if 'infeasible' in prob.status:
    return False
else:
    return True
"""


def rej(where, n, why):
    raise Reject(where, f"line {getattr(n, 'lineno', '?')}: {why}: `{ast.unparse(n)[:100]}`")


def vec(n, where):
    if isinstance(n, ast.Name) and n.id in ("mux", "muy"):
        return n.id
    if isinstance(n, ast.Attribute) and n.attr == "center" and isinstance(n.value, ast.Name) and n.value.id in ("obj1", "obj2"):
        return f"(e_center {n.value.id})"
    if isinstance(n, ast.Attribute) and n.attr == "T":
        return vec(n.value, where)                       # transpose of a 1-D cvxpy expression
    if isinstance(n, ast.BinOp) and isinstance(n.op, ast.Sub):
        return f"(rvsub {vec(n.left, where)} {vec(n.right, where)})"
    rej(where, n, "unsupported vector expression")


def member(n, where):
    """cp.norm(sp.linalg.sqrtm(np.linalg.inv(objK.sigma)) @ (mu - objK.center).T) <= objK.alpha"""
    if not (isinstance(n, ast.Compare) and len(n.ops) == 1 and isinstance(n.ops[0], ast.LtE)):
        rej(where, n, "membership constraint is not `norm(...) <= alpha`")
    lhs, rhs = n.left, n.comparators[0]
    if not (isinstance(rhs, ast.Attribute) and rhs.attr == "alpha" and isinstance(rhs.value, ast.Name) and rhs.value.id in ("obj1", "obj2")):
        rej(where, rhs, "right-hand side is not the region's alpha")
    if not (isinstance(lhs, ast.Call) and ast.unparse(lhs.func) == "cp.norm" and len(lhs.args) == 1 and not lhs.keywords
            and isinstance(lhs.args[0], ast.BinOp) and isinstance(lhs.args[0].op, ast.MatMult)):
        rej(where, lhs, "left-hand side is not cp.norm(A @ v)")
    A, v = lhs.args[0].left, lhs.args[0].right
    obj = rhs.value.id
    if ast.unparse(A) != f"sp.linalg.sqrtm(np.linalg.inv({obj}.sigma))":
        rej(where, A, f"matrix is not sqrtm(inv({obj}.sigma))")
    return f"sqrt (rnorm2 (rmatvec (e_psqrt {obj}) {vec(v, where)})) <= e_alpha {obj}"


def t_dom(src):
    where = f"{REL}:EllipsoidalConfidenceRegion.is_dominated"
    b = match_stmts(DOM, clean_body(src.func(REL, "EllipsoidalConfidenceRegion.is_dominated")), where)
    c1, c2 = member(b["M_c1"], where), member(b["M_c2"], where)
    if "mux" not in c1 or "obj1" not in c1 or "muy" not in c2 or "obj2" not in c2:
        rej(where, b["M_c1"], "cons1 / cons2 do not constrain (mux, obj1) and (muy, obj2)")
    o = b["M_obj"]
    if not (isinstance(o, ast.BinOp) and isinstance(o.op, ast.MatMult) and ast.unparse(o.left) == "cone_matrix[n]"):
        rej(where, o, "objective is not cone_matrix[n] @ (...)")
    obj = f"rdot w {vec(o.right, where)}"
    r = b["M_rej"]
    if not (isinstance(r, ast.Compare) and len(r.ops) == 1 and isinstance(r.ops[0], ast.Lt) and ast.unparse(r.left) == "prob.value"
            and ast.unparse(r.comparators[0]) == "-slackness[n]"):
        rej(where, r, "rejection test is not `prob.value < -slackness[n]`")
    return (f"(* {where}\n   cons1, cons2: cp.norm(sqrtm(inv(sigma)) @ (mu - center).T) <= alpha;  for every facet n: minimise cone_matrix[n] @ (muy - mux);\n"
            "   return False iff some minimum is < -slackness[n] *)\n"
            f"Definition gen_ell_dom_cons1 (obj1 : ellR) (mux : list R) : Prop :=\n  {c1}.\n"
            f"Definition gen_ell_dom_cons2 (obj2 : ellR) (muy : list R) : Prop :=\n  {c2}.\n"
            "Definition gen_ell_is_dominated (cone_matrix : list (list R)) (obj1 obj2 : ellR) (slackness : list R) : Prop :=\n"
            "  forall n w s, nth_error cone_matrix n = Some w -> nth_error slackness n = Some s ->\n"
            "  forall mux muy, length mux = length w -> length muy = length w ->\n"
            f"    gen_ell_dom_cons1 obj1 mux -> gen_ell_dom_cons2 obj2 muy -> ~ ({obj} < - s).\n")


def t_cov(src):
    where = f"{REL}:EllipsoidalConfidenceRegion.is_covered"
    b = match_stmts(COV, clean_body(src.func(REL, "EllipsoidalConfidenceRegion.is_covered")), where)
    c1, c2 = member(b["M_c1"], where), member(b["M_c2"], where)
    if "mux" not in c1 or "obj1" not in c1 or "muy" not in c2 or "obj2" not in c2:
        rej(where, b["M_c1"], "cons1 / cons2 do not constrain (mux, obj1) and (muy, obj2)")
    c3 = b["M_c3"]
    if not (isinstance(c3, ast.Compare) and len(c3.ops) == 1 and isinstance(c3.ops[0], ast.GtE) and ast.unparse(c3.comparators[0]) == "slackness"
            and isinstance(c3.left, ast.BinOp) and isinstance(c3.left.op, ast.MatMult) and ast.unparse(c3.left.left) == "cone_matrix"):
        rej(where, c3, "cone constraint is not `cone_matrix @ (...) >= slackness`")
    d = vec(c3.left.right, where)
    return (f"(* {where}\n   feasibility of: cons1, cons2 and  cone_matrix @ (muy - mux) >= slackness *)\n"
            "Definition gen_ell_is_covered (cone_matrix : list (list R)) (obj1 obj2 : ellR) (slackness : list R) : Prop :=\n"
            "  exists mux muy,\n"
            f"    {c1} /\\\n    {c2} /\\\n"
            f"    (forall n w s, nth_error cone_matrix n = Some w -> nth_error slackness n = Some s -> s <= rdot w {d}).\n")


def run(src, out, hdr):
    f = "Gen_ell.v"
    hdr[f] = ("(* GENERATED by /verif/translator (py2coq.py, ellgen.py) from vopy/confidence_region.py — do not edit. *)\n"
              "From Coq Require Import Reals List.\nFrom VOPy Require Import EllipsoidR EllSpec.\nImport ListNotations.\nOpen Scope R_scope.\n\n")
    out.attempt(f, "ellipsoid.is_dominated.posed", lambda: t_dom(src))
    out.attempt(f, "ellipsoid.is_covered.posed", lambda: t_cov(src))
