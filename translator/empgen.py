"""empgen.py — EmpiricalMeanVarModel (vopy/models/empirical_mean_var.py): add_sample (guards + per-sample append), clear_data,
update (means / variances per design with the empty and single-sample fallbacks) and predict (flags decide what is reported).
Whole-method templates with the guard comparisons, fallbacks and flag tests compiled from the source."""
import ast
from py2coq import Reject, clean_body, match_stmts

REL = "vopy/models/empirical_mean_var.py"
CLS = "EmpiricalMeanVarModel"
ADD = """
if M_g1:
    raise ValueError('Number of samples is ambiguous.')
if M_g2:
    raise ValueError('Design index out of bounds.')
for idx, y in zip(indices, Y_t):
    self.design_samples[idx] = np.concatenate([self.design_samples[idx], y.reshape(-1, self.output_dim)], axis=0)
"""
CLEAR = """
self.design_samples = [np.empty((0, self.output_dim)) for _ in range(self.design_count)]
"""
UPDATE = """
if self.track_means:
    self.means = np.array([np.mean(design, axis=0) if M_c1 else np.zeros(self.output_dim) for design in self.design_samples])
else:
    self.means = None
if self.track_variances:
    self.variances = np.array([np.diag(np.var(design, axis=0)) if M_c2 else np.eye(self.output_dim) * self.noise_var for design in self.design_samples])
else:
    self.variances = None
"""
PREDICT = """
if test_X.shape[1] != self.input_dim + 1:
    raise ValueError('Test data needs to have an additional column for indices.')
indices = test_X[..., -1].astype(int)
if self.track_means:
    means = self.means[indices]
else:
    means = np.zeros((len(indices), self.output_dim))
if self.track_variances:
    variances = self.variances[indices]
else:
    variances = np.array([np.eye(self.output_dim) for _ in indices])
return (means, variances)
"""


def rej(where, n, why):
    raise Reject(where, f"line {getattr(n, 'lineno', '?')}: {why}: `{ast.unparse(n)[:90]}`")


def natx(n, where):
    k = ast.unparse(n)
    table = {"len(indices)": "(length indices)", "len(Y_t)": "(length Y_t)", "max(indices)": "(list_max indices)",
             "self.design_count": "design_count", "len(design)": "(length design)"}
    if k in table:
        return table[k]
    if isinstance(n, ast.Constant) and isinstance(n.value, int) and n.value >= 0:
        return str(n.value)
    rej(where, n, "unsupported integer expression")


def cmpx(n, where):
    if not (isinstance(n, ast.Compare) and len(n.ops) == 1):
        rej(where, n, "unsupported comparison")
    a, b = natx(n.left, where), natx(n.comparators[0], where)
    t = {ast.NotEq: f"negb (Nat.eqb {a} {b})", ast.Eq: f"Nat.eqb {a} {b}", ast.GtE: f"Nat.leb {b} {a}", ast.Gt: f"Nat.ltb {b} {a}",
         ast.LtE: f"Nat.leb {a} {b}", ast.Lt: f"Nat.ltb {a} {b}"}.get(type(n.ops[0]))
    return t or rej(where, n, "unsupported comparison operator")


def t_all(src):
    w = lambda m: f"{REL}:{CLS}.{m}"
    b_add = match_stmts(ADD, clean_body(src.func(REL, f"{CLS}.add_sample")), w("add_sample"))
    match_stmts(CLEAR, clean_body(src.func(REL, f"{CLS}.clear_data")), w("clear_data"))
    b_up = match_stmts(UPDATE, clean_body(src.func(REL, f"{CLS}.update")), w("update"))
    match_stmts(PREDICT, clean_body(src.func(REL, f"{CLS}.predict")), w("predict"))
    g1, g2 = cmpx(b_add["M_g1"], w("add_sample")), cmpx(b_add["M_g2"], w("add_sample"))
    c1, c2 = cmpx(b_up["M_c1"], w("update")), cmpx(b_up["M_c2"], w("update"))
    return (f"(* {w('add_sample')}: two guards (either one raises, state unchanged; max of an empty batch raises too), then one append per (idx, y) *)\n"
            "Definition gen_add_raises (design_count : nat) (indices : list nat) (Y_t : list vec) : bool :=\n"
            f"  ({g1}) || (match indices with [] => true | _ => {g2} end).\n"
            "Definition gen_add_store (samples : list (list vec)) (indices : list nat) (Y_t : list vec) : list (list vec) :=\n"
            "  fold_left (fun s p => app_at s (fst p) (snd p)) (combine indices Y_t) samples.\n"
            f"(* {w('clear_data')} *)\n"
            "Definition gen_clear (samples : list (list vec)) : list (list vec) := map (fun _ => []) samples.\n"
            f"(* {w('update')}: np.mean / np.var (population variance) per design with the source's fallbacks *)\n"
            "Definition gen_update_mean (m : nat) (design : list vec) : vec :=\n"
            f"  if {c1} then vscale (/ qlen design) (vsum m design) else vzero m.\n"
            "Definition gen_update_var (m : nat) (noise_var : Q) (design : list vec) : vec :=\n"
            f"  if {c2} then vvar m design else repeat noise_var m.\n"
            "Definition gen_update (m : nat) (noise_var : Q) (track_means track_variances : bool) (samples : list (list vec))\n"
            "  : option (list vec) * option (list vec) :=\n"
            "  ((if track_means then Some (map (gen_update_mean m) samples) else None),\n"
            "   (if track_variances then Some (map (gen_update_var m noise_var) samples) else None)).\n"
            f"(* {w('predict')}: the FLAGS decide what is reported; cached arrays are indexed only when the flag is on *)\n"
            "Definition gen_predict1 (m : nat) (track_means track_variances : bool) (means variances : option (list vec)) (i : nat) : option (vec * vec) :=\n"
            "  let mu := if track_means then match means with Some ms => nth_error ms i | None => None end else Some (vzero m) in\n"
            "  let va := if track_variances then match variances with Some vs => nth_error vs i | None => None end else Some (repeat 1 m) in\n"
            "  match mu, va with Some a, Some b => Some (a, b) | _, _ => None end.\n")


def run(src, out, hdr):
    f = "Gen_emp.v"
    hdr[f] = ("(* GENERATED by /verif/translator (py2coq.py, empgen.py) from vopy/models/empirical_mean_var.py — do not edit. *)\n"
              "From Coq Require Import QArith List Bool Arith.\nFrom VOPy Require Import QVec Empirical.\nImport ListNotations.\nOpen Scope Q_scope.\n\n")
    out.attempt(f, "empirical.model", lambda: t_all(src))
