"""extragen.py — small helpers that sit between the modelled cores and the caller (round-5 seeded defects lived here):
the nearest-design lookup and ProblemFromDataset.evaluate (C20 / C08), get_alpha_vec (C17), the uncovered count / set of
the eps-F1 score (C19), the constructors through which per-objective costs reach the decoupled acquisition (C06), and the
prior-mode guard of IndependentExactGPyTorchModel.predict (C15).  Whole-function templates: any other statement rejects."""
from py2coq import clean_body, match_stmts

UT = "vopy/utils/utils.py"
MP = "vopy/maximization_problem.py"
AQ = "vopy/acquisition/acquisition.py"
GP = "vopy/models/gpytorch.py"

CLOSEST = """
if len(pts_to_find) == 0 or len(pts_to_check) == 0:
    return []
distances = euclidean_distances(pts_to_find, pts_to_check, squared=squared)
x_inds = np.argmin(distances, axis=1)
if return_distances:
    return x_inds.astype(int), np.min(distances, axis=1)
return x_inds.astype(int)
"""
PFD_INIT = """
super().__init__()
self.dataset = dataset
self.noise_var = noise_var
noise_covar = np.eye(self.dataset.out_dim) * noise_var
self.noise_cholesky = np.linalg.cholesky(noise_covar)
"""
PFD_EVAL = """
if x.ndim <= 1:
    x = x.reshape(1, -1)
indices = get_closest_indices_from_points(x, self.dataset.in_data, squared=True)
f = self.dataset.out_data[indices].reshape(len(x), -1)
if not noisy:
    return f
y = get_noisy_evaluations_chol(f, self.noise_cholesky)
return y
"""
ALPHA_VEC = """
alpha_vec = np.zeros((W.shape[0], 1))
for i in range(W.shape[0]):
    alpha_vec[i] = get_alpha(i, W)
return alpha_vec
"""
UNCOVERED_SIZE = """
count = 0
for i, ip in enumerate(pareto_pts):
    for jp in pareto_hat_pts:
        if is_covered(ip, jp, eps, W):
            break
    else:
        count += 1
return count
"""
UNCOVERED_SET = """
uncovered_set = []
for i in p_inds:
    for j in p_hat_inds:
        if is_covered(mu[i, :], mu[j, :], eps, W):
            break
    else:
        uncovered_set.append(i)
return uncovered_set
"""
DEC_INIT = """
super().__init__()
self.out_dim = output_dim
self.evaluation_index = evaluation_index
self.costs = costs
"""
THOMPSON_INIT = """
self.model = model
super().__init__(self.model.output_dim, evaluation_index, costs)
self.order = order
self.num_thompson_samples = num_thompson_samples
self._clear_cache()
"""
MAXVAR_INIT = """
self.model = model
super().__init__(self.model.output_dim, evaluation_index, costs)
"""
INDEP_PREDICT = """
test_X = self.to_tensor(test_X[..., :self.input_dim])
no_data = self.model.train_targets.numel() == 0
with torch.no_grad(), torch.autograd.set_detect_anomaly(True), gpytorch.settings.prior_mode(no_data):
    res = self.model(test_X)
    means = res.mean.reshape(-1, self.output_dim).numpy(force=True)
    variances = torch.einsum('ij,ki->kij', torch.eye(self.output_dim), res.variance).numpy(force=True)
return means, variances
"""


def _m(src, rel, name, tpl):
    where = f"{rel}:{name}"
    match_stmts(tpl, clean_body(src.func(rel, name)), where)
    return where


def t_lookup(src):
    w1 = _m(src, UT, "get_closest_indices_from_points", CLOSEST)
    w0 = _m(src, MP, "ProblemFromDataset.__init__", PFD_INIT)
    w2 = _m(src, MP, "ProblemFromDataset.evaluate", PFD_EVAL)
    return (f"(* {w1}: per query point the FIRST index attaining the minimum distance to the checked points (np.argmin over one\n"
            "   row of the distance matrix; squaring the distance does not change the arg-min); [] when either list is empty *)\n"
            "Definition gen_closest_indices (pts_to_find pts_to_check : list vec) : list nat :=\n"
            "  if Nat.eqb (length pts_to_find) 0 || Nat.eqb (length pts_to_check) 0 then []\n"
            "  else map (fun p => match argmin_first (map (fun r => sqdist p r) pts_to_check) 0 with Some (i, _) => i | None => O end) pts_to_find.\n\n"
            f"(* {w0}: the noise factor is the Cholesky factor of noise_var * I (an input `noise_cholesky` below) *)\n"
            "Definition gen_pfd_noise_covar_is_scaled_identity : bool := true.\n\n"
            f"(* {w2}: rows of out_data at the nearest designs of in_data; with noisy=True each row f gets L g added, g being that\n"
            "   row's standard-normal draw (get_noisy_evaluations_chol, regenerated as gen_noisy_row) *)\n"
            "Definition gen_pfd_evaluate (in_data out_data : list vec) (noise_cholesky : mat) (x : list vec) (noisy : bool) (draws : list vec) : list vec :=\n"
            "  let indices := gen_closest_indices x in_data in\n"
            "  let f := map (fun i => nth i out_data []) indices in\n"
            "  if negb noisy then f else map (fun fg => gen_noisy_row noise_cholesky (fst fg) (snd fg)) (combine f draws).\n")


def t_alpha_vec(src):
    w = _m(src, UT, "get_alpha_vec", ALPHA_VEC)
    return (f"(* {w}: a float column with one entry per ROW of W, entry i being get_alpha(i, W) (the SOCP value, an input here) *)\n"
            "Definition gen_alpha_vec (get_alpha : nat -> Q) (rows : nat) : list Q := map get_alpha (seq 0 rows).\n")


def t_uncovered(src):
    w1 = _m(src, UT, "get_uncovered_size", UNCOVERED_SIZE)
    w2 = _m(src, UT, "get_uncovered_set", UNCOVERED_SET)
    return (f"(* {w1}: the number of points that NO predicted point covers (for/else with break); is_covered is an input *)\n"
            "Definition gen_uncovered_size (is_covered : vec -> vec -> bool) (pareto_pts pareto_hat_pts : list vec) : nat :=\n"
            "  length (filter (fun ip => negb (existsb (fun jp => is_covered ip jp) pareto_hat_pts)) pareto_pts).\n\n"
            f"(* {w2}: the same scan over index lists into one value table *)\n"
            "Definition gen_uncovered_set (is_covered : vec -> vec -> bool) (mu : list vec) (p_inds p_hat_inds : list nat) : list nat :=\n"
            "  filter (fun i => negb (existsb (fun j => is_covered (nth i mu []) (nth j mu [])) p_hat_inds)) p_inds.\n")


def t_costs(src):
    w1 = _m(src, AQ, "DecoupledAcquisitionStrategy.__init__", DEC_INIT)
    w2 = _m(src, AQ, "ThompsonEntropyDecoupledAcquisition.__init__", THOMPSON_INIT)
    w3 = _m(src, AQ, "MaxVarianceDecoupledAcquisition.__init__", MAXVAR_INIT)
    return (f"(* {w1}, {w2}, {w3}: the cost vector handed over by the algorithm is stored as it is: the constructors neither\n"
            "   rescale nor write to it (what the acquisition keeps, given what the caller passed) *)\n"
            "Definition gen_decoupled_acq_costs (costs : option vec) : option vec := costs.\n"
            "Definition gen_decoupled_acq_writes_to_callers_costs : bool := false.\n")


def t_indep_predict(src):
    w = _m(src, GP, "IndependentExactGPyTorchModel.predict", INDEP_PREDICT)
    return (f"(* {w}: the posterior of the gpytorch model as conditioned at the last update(); prior mode exactly when THAT model holds\n"
            "   no targets (not when the wrapper's pending store is empty); one (m x m) diagonal block per test point *)\n"
            "Inductive prior_mode_source := LastUpdateHoldsNoTargets | OtherSource.\n"
            "Definition gen_indep_predict_prior_mode : prior_mode_source := LastUpdateHoldsNoTargets.\n")


def run(src, out, hdr):
    f = "Gen_extra.v"
    hdr[f] = ("(* GENERATED by /verif/translator (py2coq.py, extragen.py) from vopy/utils/utils.py, vopy/maximization_problem.py,\n"
              "   vopy/acquisition/acquisition.py, vopy/models/gpytorch.py — do not edit. *)\n"
              "From Coq Require Import QArith List Bool Arith.\nFrom VOPy Require Import QVec Problem.\nFrom VOPyGen Require Import Gen_problem.\n"
              "Import ListNotations.\nOpen Scope Q_scope.\n\n")
    out.attempt(f, "problem.lookup", lambda: t_lookup(src))
    out.attempt(f, "utils.get_alpha_vec", lambda: t_alpha_vec(src))
    out.attempt(f, "utils.uncovered", lambda: t_uncovered(src))
    out.attempt(f, "acquisition.costs", lambda: t_costs(src))
    out.attempt(f, "gpytorch.indep_predict", lambda: t_indep_predict(src))
