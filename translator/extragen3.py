"""extragen3.py — the train-and-freeze helpers, the hyper-parameter getters and DecoupledGP's two phases (whole-function
templates) into Gen_extra3.v: the helpers as operation sequences of GPWrapper.gstep (C15), DecoupledGP.evaluating /
pareto_updating as the accounting and data flow they perform (C06 / C07)."""
from py2coq import clean_body, match_stmts

GP = "vopy/models/gpytorch.py"
DG = "vopy/algorithms/decoupled.py"

FACTORY = """
if X is None:
    X = generate_sobol_samples(problem.in_dim, 512)
if Y is None:
    Y = problem.evaluate(X)
in_dim = X.shape[1]
out_dim = Y.shape[1]
model = model_class(in_dim, out_dim, noise_var=noise_var)
model.add_sample(X, Y)
model.update()
model.train()
model.clear_data()
model.update()
if initial_sample_cnt > 0:
    initial_indices = np.random.choice(len(X), initial_sample_cnt)
    initial_points = X[initial_indices]
    initial_values = Y[initial_indices]
    model.add_sample(initial_points, initial_values)
    model.update()
return model
"""
FACTORY_LIST = """
if X is None:
    X = generate_sobol_samples(problem.in_dim, 512)
if Y is None:
    Y = problem.evaluate(X)
in_dim = X.shape[1]
out_dim = Y.shape[1]
model = GPyTorchModelListExactModel(in_dim, out_dim, noise_var=noise_var)
for dim_i in range(out_dim):
    model.add_sample(X, Y[:, dim_i], dim_i)
model.update()
model.train()
model.clear_data()
model.update()
if initial_sample_cnt > 0:
    choices = np.stack([np.arange(len(X)).repeat(out_dim), np.tile(np.arange(out_dim), len(X))], axis=-1)
    selected_pt_obj_indices = np.random.choice(len(choices), initial_sample_cnt)
    initial_pt_obj_indices = choices[selected_pt_obj_indices]
    initial_points = X[initial_pt_obj_indices[:, 0]]
    initial_values = problem.evaluate(initial_points)
    model.add_sample(initial_points, initial_values[np.arange(initial_sample_cnt), initial_pt_obj_indices[:, 1]], initial_pt_obj_indices[:, 1])
    model.update()
return model
"""
LSV_MULTI = """
if self.model is None:
    raise AssertionError('Model not initialized.')
cov_module = self.model.covar_module
if isinstance(self.model, MultitaskExactGPModel):
    lengthscales = cov_module.data_covar_module.lengthscale.squeeze().numpy(force=True)
    variances = cov_module.task_covar_module.var.squeeze().numpy(force=True)
elif isinstance(self.model, BatchIndependentExactGPModel):
    lengthscales = cov_module.base_kernel.lengthscale.squeeze().numpy(force=True)
    variances = cov_module.outputscale.squeeze().numpy(force=True)
return (lengthscales, variances)
"""
LSV_LIST = """
lengthscales = np.zeros((len(self.model.models), self.input_dim))
variances = np.zeros(len(self.model.models))
for model_i, model in enumerate(self.model.models):
    cov_module = model.covar_module
    lengthscale = cov_module.base_kernel.lengthscale.squeeze().numpy(force=True)
    variance = cov_module.outputscale.squeeze().numpy(force=True).item()
    lengthscales[model_i] = lengthscale
    variances[model_i] = variance
return (lengthscales, variances)
"""
DG_PARETO = """
mu, covars = self.model.predict(self.points)
self.P = self.order.get_pareto_set(mu)
"""
DG_EVAL = """
acq = ThompsonEntropyDecoupledAcquisition(self.model, order=self.order, costs=self.costs)
candidate_list, acq_values, eval_indices = optimize_decoupled_acqf_discrete(acq, self.batch_size, choices=self.points)
observations = self.problem.evaluate(candidate_list, eval_indices)
self.sample_count += len(candidate_list)
if self.costs is not None:
    self.total_cost += np.sum(self.costs[eval_indices])
self.model.add_sample(candidate_list, observations, eval_indices)
self.model.update()
"""


def _m(src, rel, name, tpl):
    where = f"{rel}:{name}"
    match_stmts(tpl, clean_body(src.func(rel, name)), where)
    return where


def t_factories(src):
    w1 = _m(src, GP, "get_gpytorch_model_w_known_hyperparams", FACTORY)
    w2 = _m(src, GP, "get_gpytorch_modellist_w_known_hyperparams", FACTORY_LIST)
    return (f"(* {w1}: add all training data, update, train, clear, update; then, when initial_sample_cnt > 0, add the drawn initial\n"
            "   samples and update (train() fits hyper-parameters only: no effect on which samples are held / conditioned on) *)\n"
            "Definition gen_factory_ops (sample : Type) (train initial : list sample) (initial_sample_cnt : nat) : list (gop sample) :=\n"
            "  [AddAll sample train; UpdateModel sample; ClearData sample; UpdateModel sample] ++\n"
            "  (if Nat.ltb 0 initial_sample_cnt then [AddAll sample initial; UpdateModel sample] else []).\n\n"
            f"(* {w2}: one add per objective with that objective's column, update, train, clear, update; then, when\n"
            "   initial_sample_cnt > 0, ONE per-row add of the drawn (point, objective) pairs (a row with objective k reaches store k) and update *)\n"
            "Definition gen_factory_list_ops (sample : Type) (train : list (list sample)) (initial : list (nat * sample)) (initial_sample_cnt : nat) : list (gop sample) :=\n"
            "  map (fun ks => AddObj sample (fst ks) (snd ks)) (combine (seq 0 (length train)) train) ++\n"
            "  [UpdateModel sample; ClearData sample; UpdateModel sample] ++\n"
            "  (if Nat.ltb 0 initial_sample_cnt then map (fun ks => AddObj sample (fst ks) [snd ks]) initial ++ [UpdateModel sample] else []).\n")


def t_hyper(src):
    w1 = _m(src, GP, "GPyTorchMultioutputExactModel.get_lengthscale_and_var", LSV_MULTI)
    w2 = _m(src, GP, "GPyTorchModelListExactModel.get_lengthscale_and_var", LSV_LIST)
    return (f"(* {w1}: the kernel's own lengthscale / variance tensors, squeezed (multitask: data kernel and task variances; batch-\n"
            "   independent: one row / entry per objective).  {w2}: row k / entry k read from the k-th single-output model's kernel *)\n".replace("{w2}", w2)
            + "Definition gen_modellist_hyperparameters (A B : Type) (kernels : list (A * B)) : list A * list B :=\n"
            "  (map fst kernels, map snd kernels).\n")


def t_decoupled(src):
    w1 = _m(src, DG, "DecoupledGP.pareto_updating", DG_PARETO)
    w2 = _m(src, DG, "DecoupledGP.evaluating", DG_EVAL)
    return (f"(* {w1}: P = Pareto set of the posterior means of ALL points.\n"
            f"   {w2}: the decoupled optimiser picks (design, objective) pairs among all points with the algorithm's own cost vector;\n"
            "   sample_count grows by the number of pairs, total_cost by the summed costs of the requested objectives, and exactly the\n"
            "   requested pairs with their observations reach the model *)\n"
            "Definition gen_decoupled_evaluating (costs : option (list Q)) (eval_indices : list nat) (sample_count : nat) (total_cost : Q) : nat * Q :=\n"
            "  ((sample_count + length eval_indices)%nat,\n"
            "   match costs with Some c => (total_cost + fold_right Qplus 0 (map (fun k => nth k c 0) eval_indices))%Q | None => total_cost end).\n"
            "Definition gen_decoupled_pareto_is_pareto_of_posterior_means : bool := true.\n")


def run(src, out, hdr):
    f = "Gen_extra3.v"
    hdr[f] = ("(* GENERATED by /verif/translator (py2coq.py, extragen3.py) from vopy/models/gpytorch.py, vopy/algorithms/decoupled.py — do not edit. *)\n"
              "From Coq Require Import QArith List Bool Arith.\nFrom VOPy Require Import GPWrapper.\nImport ListNotations.\n\n")
    out.attempt(f, "gpytorch.factories", lambda: t_factories(src))
    out.attempt(f, "gpytorch.hyperparameters", lambda: t_hyper(src))
    out.attempt(f, "decoupled.phases", lambda: t_decoupled(src))
