"""extragen4.py — remaining thin layers between callers and the modelled cores (whole-function templates) into Gen_extra4.v:
the three region-predicate dispatchers (C09 / C10 / C11), utils.is_covered (the conic problem of the eps-coverage test, C19),
to_tensor (C15: the copy that separates the wrapper's stores from the caller's arrays), EmpiricalMeanVarModel.__init__ (C16),
Auer.evaluating (C06 / C07), and the acquisition call protocol (C07)."""
from py2coq import clean_body, match_stmts

CR = "vopy/confidence_region.py"
UT = "vopy/utils/utils.py"
GP = "vopy/models/gpytorch.py"
EM = "vopy/models/empirical_mean_var.py"
AU = "vopy/algorithms/auer.py"
AQ = "vopy/acquisition/acquisition.py"


def dispatch(name, args):
    return f"""
if isinstance(region1, RectangularConfidenceRegion):
    return RectangularConfidenceRegion.{name}({args})
elif isinstance(region1, EllipsoidalConfidenceRegion):
    return EllipsoidalConfidenceRegion.{name}({args})
else:
    raise NotImplementedError
"""


UTILS_IS_COVERED = """
x = cp.Variable(W.shape[1])
constraints = [W @ x >= 0, cp.norm(x + (vi - vj)) <= eps, W @ (x + (vi - vj)) >= 0]
prob = cp.Problem(cp.Minimize(0), constraints)
prob.solve()
return x.value is not None
"""
TO_TENSOR = """
if not isinstance(data, torch.Tensor):
    data = torch.tensor(data, dtype=torch.float64).to(self.device)
return data
"""
EMP_INIT = """
super().__init__()
self.noise_var = noise_var
self.input_dim = input_dim
self.output_dim = output_dim
self.design_count = design_count
self.track_means = track_means
self.track_variances = track_variances
self.clear_data()
"""
AUER_EVAL = """
active_pts = self.design_space.points[list(self.S)]
observations = self.problem.evaluate(active_pts[:, :-1])
self.sample_count += len(self.S)
self.model.add_sample(self.S, observations)
self.model.update()
"""
ACQ_CALL = """
return self.forward(*args, **kwds)
"""
SUMVAR_INIT = """
super().__init__()
self.model = model
"""
MAXDIAG_INIT = """
super().__init__()
self.design_space = design_space
"""
ELL_CHECK_DOM = """
raise NotImplementedError
"""


def _m(src, rel, name, tpl):
    where = f"{rel}:{name}"
    match_stmts(tpl, clean_body(src.func(rel, name)), where)
    return where


def t_dispatch(src):
    w1 = _m(src, CR, "confidence_region_is_dominated", dispatch("is_dominated", "order, region1, region2, slackness"))
    w2 = _m(src, CR, "confidence_region_check_dominates", dispatch("check_dominates", "order, region1, region2"))
    w3 = _m(src, CR, "confidence_region_is_covered", dispatch("is_covered", "order, region1, region2, slackness"))
    w4 = _m(src, CR, "EllipsoidalConfidenceRegion.check_dominates", ELL_CHECK_DOM)
    return (f"(* {w1}, {w2}, {w3}: dispatch on the class of the FIRST region, arguments passed on unchanged and in the same order\n"
            f"   ({w4}: the pessimistic comparison is not defined for ellipsoids) *)\n"
            "Inductive region_kind := RectRegion | EllRegion | OtherRegion.\n"
            "Definition gen_dispatch (A : Type) (rect ell : A) (k : region_kind) : option A :=\n"
            "  match k with RectRegion => Some rect | EllRegion => Some ell | OtherRegion => None end.\n"
            "Definition gen_ell_check_dominates_defined : bool := false.\n")


def t_utils_is_covered(src):
    w = _m(src, UT, "is_covered", UTILS_IS_COVERED)
    return (f"(* {w}: feasibility of  W x >= 0,  ||x + (vi - vj)|| <= eps,  W (x + (vi - vj)) >= 0  (True iff the solver returns a point):\n"
            "   with u = x + (vi - vj):  u in C, ||u|| <= eps and vj + u - vi = x in C — the statement checked by the certificates of Metrics.v *)\n"
            "Definition gen_pcov_feasible (W : mat) (vi vj : vec) (eps : Q) (x : vec) : Prop :=\n"
            "  (forall w, In w W -> 0 <= dot w x) /\\\n"
            "  dot (vadd x (vsub vi vj)) (vadd x (vsub vi vj)) <= eps * eps /\\\n"
            "  (forall w, In w W -> 0 <= dot w (vadd x (vsub vi vj))).\n")


def t_small(src):
    w1 = _m(src, GP, "GPyTorchModel.to_tensor", TO_TENSOR)
    w2 = _m(src, EM, "EmpiricalMeanVarModel.__init__", EMP_INIT)
    w3 = _m(src, AU, "Auer.evaluating", AUER_EVAL)
    w4 = _m(src, AQ, "AcquisitionStrategy.__call__", ACQ_CALL)
    w5 = _m(src, AQ, "SumVarianceAcquisition.__init__", SUMVAR_INIT)
    w6 = _m(src, AQ, "MaxDiagonalAcquisition.__init__", MAXDIAG_INIT)
    return (f"(* {w1}: anything that is not already a tensor is COPIED into a new float64 tensor (torch.tensor), so the wrapper's stores never\n"
            "   share memory with a caller's array or list *)\n"
            "Definition gen_to_tensor_copies_non_tensors : bool := true.\n"
            f"(* {w2}: the configuration is stored as given (noise_var included) and the per-design stores start empty (clear_data) *)\n"
            "Definition gen_emp_init_noise (noise_var : Q) : Q := noise_var.\n"
            f"(* {w3}: every design of S is evaluated once (all objectives), counted once, and stored under its own index *)\n"
            "Definition gen_auer_evaluating (S : list nat) (sample_count : nat) : list nat * nat := (S, (sample_count + length S)%nat).\n"
            f"(* {w4}, {w5}, {w6}: calling an acquisition is calling its forward with the same arguments; the constructors only store what they are given *)\n"
            "Definition gen_acq_call_is_forward : bool := true.\n")


def run(src, out, hdr):
    f = "Gen_extra4.v"
    hdr[f] = ("(* GENERATED by /verif/translator (py2coq.py, extragen4.py) from vopy/confidence_region.py, vopy/utils/utils.py,\n"
              "   vopy/models/gpytorch.py, vopy/models/empirical_mean_var.py, vopy/algorithms/auer.py, vopy/acquisition/acquisition.py — do not edit. *)\n"
              "From Coq Require Import QArith List Bool Arith.\nFrom VOPy Require Import QVec.\nImport ListNotations.\nOpen Scope Q_scope.\n\n")
    out.attempt(f, "regions.dispatch", lambda: t_dispatch(src))
    out.attempt(f, "utils.is_covered", lambda: t_utils_is_covered(src))
    out.attempt(f, "thin.layers", lambda: t_small(src))
