"""gpwgen.py — bookkeeping of the GP wrappers (vopy/models/gpytorch.py): which statements touch the wrapper's stores
(train_inputs / train_targets: what the wrapper HOLDS) and what update() hands to gpytorch (what the model is CONDITIONED on).
Whole-method templates; emits the state changes over GPWrapper.gpw (one store per objective: the multi-output wrappers keep one
shared table, i.e. every objective gets every row)."""
import ast
from py2coq import Reject, clean_body, match_stmts

REL = "vopy/models/gpytorch.py"
MULTI_ADD = """
if X_t.ndim != 2 or Y_t.ndim != 2:
    raise ValueError(M_msg)
X_t = self.to_tensor(X_t[..., :self.input_dim])
Y_t = self.to_tensor(Y_t)
self.train_inputs = torch.cat([self.train_inputs, X_t], 0)
self.train_targets = torch.cat([self.train_targets, Y_t], 0)
"""
MULTI_CLEAR = """
self.train_inputs = torch.empty((0, self.input_dim)).to(self.device)
self.train_targets = torch.empty((0, self.output_dim)).to(self.device)
"""
MULTI_UPDATE = """
if self.model is None:
    self.model = self.model_kind(self.train_inputs, self.train_targets, self.likelihood, self.kernel_type).to(self.device)
else:
    self.model.set_train_data(self.train_inputs, self.train_targets, strict=False)
self.model.eval()
self.likelihood.eval()
"""
LIST_SINGLE = """
self.train_inputs[dim_index] = torch.cat([self.train_inputs[dim_index], X_t], 0)
self.train_targets[dim_index] = torch.cat([self.train_targets[dim_index], Y_t], 0)
"""
LIST_ADD = """
X_t = self.to_tensor(X_t[..., :self.input_dim])
Y_t = self.to_tensor(Y_t)
if X_t.ndim != 2 or Y_t.ndim != 1:
    raise ValueError(M_msg)
if isinstance(dim_index, int):
    self._add_sample_single(X_t, Y_t, dim_index)
    return
if len(dim_index) != len(X_t):
    raise ValueError('dim_index should be the same length as data')
dim_index = torch.tensor(dim_index, dtype=torch.int32)
unique_dims = torch.unique(dim_index)
for dim_i in unique_dims:
    sample_indices_dim = dim_index == dim_i
    self._add_sample_single(X_t[sample_indices_dim].reshape(-1, self.input_dim), Y_t[sample_indices_dim], dim_i)
"""
LIST_CLEAR = """
self.train_inputs = [torch.empty((0, self.input_dim)).to(self.device) for _ in range(self.output_dim)]
self.train_targets = [torch.empty(0).to(self.device) for _ in range(self.output_dim)]
"""
LIST_UPDATE = """
if self.model is None:
    models = [SingleTaskGP(self.train_inputs[obj_i], self.train_targets[obj_i], self.likelihoods[obj_i], kernel=self.kernel_type) for obj_i in range(self.output_dim)]
    self.model = gpytorch.models.IndependentModelList(*models)
    self.likelihood = gpytorch.likelihoods.LikelihoodList(*[model.likelihood for model in self.model.models])
else:
    for obj_i in range(self.output_dim):
        self.model.models[obj_i].set_train_data(self.train_inputs[obj_i], self.train_targets[obj_i], strict=False)
self.model.eval()
self.likelihood.eval()
"""


def m(src, cls, meth, tpl):
    where = f"{REL}:{cls}.{meth}"
    match_stmts(tpl, clean_body(src.func(REL, f"{cls}.{meth}")), where)
    return where


def t_multi(src):
    w1 = m(src, "GPyTorchMultioutputExactModel", "add_sample", MULTI_ADD)
    w2 = m(src, "GPyTorchMultioutputExactModel", "clear_data", MULTI_CLEAR)
    w3 = m(src, "GPyTorchMultioutputExactModel", "update", MULTI_UPDATE)
    return (f"(* {w1} : the rows are appended to the shared table = to every objective's store *)\n"
            "Definition gen_multi_add_sample (st : gpw sample) (rows : list sample) : gpw sample :=\n"
            "  mkgpw sample (map (fun h => h ++ rows) (held sample st)) (cond sample st).\n"
            f"(* {w2} *)\n"
            "Definition gen_multi_clear_data (st : gpw sample) : gpw sample :=\n"
            "  mkgpw sample (map (fun _ => []) (held sample st)) (cond sample st).\n"
            f"(* {w3} : both branches hand exactly the held table to gpytorch *)\n"
            "Definition gen_multi_update (st : gpw sample) : gpw sample := mkgpw sample (held sample st) (held sample st).\n")


def t_list(src):
    w0 = m(src, "GPyTorchModelListExactModel", "_add_sample_single", LIST_SINGLE)
    w1 = m(src, "GPyTorchModelListExactModel", "add_sample", LIST_ADD)
    w2 = m(src, "GPyTorchModelListExactModel", "clear_data", LIST_CLEAR)
    w3 = m(src, "GPyTorchModelListExactModel", "update", LIST_UPDATE)
    return (f"(* {w0} / {w1} (int form): only the named objective's store grows *)\n"
            "Definition gen_list_add_sample_single (st : gpw sample) (dim_index : nat) (rows : list sample) : gpw sample :=\n"
            "  mkgpw sample (app_nth sample (held sample st) dim_index rows) (cond sample st).\n"
            "(* per-row form: for every distinct objective index (ascending: torch.unique), the rows carrying it, in order *)\n"
            "Definition gen_list_add_sample_rows (st : gpw sample) (unique_dims : list nat) (rows : list (nat * sample)) : gpw sample :=\n"
            "  fold_left (fun s dim_i => gen_list_add_sample_single s dim_i (map snd (filter (fun r => Nat.eqb (fst r) dim_i) rows))) unique_dims st.\n"
            f"(* {w2} *)\n"
            "Definition gen_list_clear_data (st : gpw sample) : gpw sample :=\n"
            "  mkgpw sample (map (fun _ => []) (held sample st)) (cond sample st).\n"
            f"(* {w3} : every objective's gpytorch model receives exactly that objective's held store *)\n"
            "Definition gen_list_update (st : gpw sample) : gpw sample := mkgpw sample (held sample st) (held sample st).\n")


def run(src, out, hdr):
    f = "Gen_gpw.v"
    hdr[f] = ("(* GENERATED by /verif/translator (py2coq.py, gpwgen.py) from vopy/models/gpytorch.py — do not edit. *)\n"
              "From Coq Require Import List Bool Arith.\nFrom VOPy Require Import GPWrapper.\nImport ListNotations.\n\n"
              "Section Gen.\nVariable sample : Type.\n\n")
    out.attempt(f, "gpytorch.multioutput.bookkeeping", lambda: t_multi(src))
    out.attempt(f, "gpytorch.modellist.bookkeeping", lambda: t_list(src))
    out.add(f, "End Gen.\n")
