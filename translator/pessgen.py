"""pessgen.py — literal translation of line_seg_pt_intersect_at_dim / is_pt_in_extended_polytope (vopy/utils/utils.py)
and RectangularConfidenceRegion.check_dominates (vopy/confidence_region.py).  Whole-function templates; the comparison
directions, the range test on t, the intersection formula and the edge condition are compiled from the source, and any
extra statement (guards, tolerances, early returns) is rejected."""
import ast
from py2coq import Reject, clean_body, match_stmts

LINE_SEG = """
t = M_t
if M_range:
    return None
point_on_line = M_point
return point_on_line
"""
EXT = """
dim = polytope.shape[1]
if invert_extension:
    def comp_func(x, y):
        return x >= y
else:
    def comp_func(x, y):
        return M_cmp
for vert in polytope:
    if comp_func(vert, pt).all():
        return True
for dim_i in range(dim):
    edges_of_interest = np.empty((0, 2, dim), dtype=np.float64)
    for vert_i, vert1 in enumerate(polytope):
        for vert_j, vert2 in enumerate(polytope):
            if vert_i == vert_j:
                continue
            if M_edge:
                edges_of_interest = np.vstack((edges_of_interest, np.expand_dims(np.vstack((vert1, vert2)), axis=0)))
    for edge in edges_of_interest:
        intersection = line_seg_pt_intersect_at_dim(edge[0], edge[1], pt, dim_i)
        if intersection is not None and comp_func(intersection, pt).all():
            return True
return False
"""
CHECK = """
cone_matrix = order.ordering_cone.W
verts1 = hyperrectangle_get_vertices(obj1.lower, obj1.upper) @ cone_matrix.transpose()
verts2 = hyperrectangle_get_vertices(obj2.lower, obj2.upper) @ cone_matrix.transpose()
for ref_point in verts1:
    if is_pt_in_extended_polytope(ref_point, verts2) is False:
        return False
return True
"""


def rej(where, n, why):
    raise Reject(where, f"line {getattr(n, 'lineno', '?')}: {why}: `{ast.unparse(n)[:90]}`")


def scal(n, where, env):
    """scalar Q expressions: names in env, X[target_dim], + - * /"""
    if isinstance(n, ast.Subscript) and isinstance(n.value, ast.Name) and ast.unparse(n.slice) in ("target_dim", "dim_i"):
        return f"nth {ast.unparse(n.slice)} {n.value.id} 0"
    if isinstance(n, ast.Name) and n.id in env:
        return env[n.id]
    if isinstance(n, ast.Constant) and isinstance(n.value, int):
        return str(n.value)
    if isinstance(n, ast.BinOp) and type(n.op) in (ast.Add, ast.Sub, ast.Mult, ast.Div):
        op = {ast.Add: "+", ast.Sub: "-", ast.Mult: "*", ast.Div: "/"}[type(n.op)]
        a, b = scal(n.left, where, env), scal(n.right, where, env)
        wrap = lambda x, e: f"({x})" if isinstance(e, ast.BinOp) else x
        return f"{wrap(a, n.left)} {op} {wrap(b, n.right)}"
    rej(where, n, "unsupported scalar expression")


def cmp1(n, where, env):
    if not (isinstance(n, ast.Compare) and len(n.ops) == 1):
        rej(where, n, "unsupported comparison")
    a, b = scal(n.left, where, env), scal(n.comparators[0], where, env)
    paren = lambda x: x if " " not in x else f"({x})"
    a, b = paren(a), paren(b)
    return {ast.Lt: f"Qlt_b {a} {b}", ast.Gt: f"Qlt_b {b} {a}", ast.LtE: f"Qle_bool {a} {b}", ast.GtE: f"Qle_bool {b} {a}"}.get(type(n.ops[0])) or rej(where, n, "unsupported comparison operator")


def boolx(n, where, env):
    if isinstance(n, ast.BoolOp):
        op = " || " if isinstance(n.op, ast.Or) else " && "
        return "(" + op.join(boolx(v, where, env) for v in n.values) + ")"
    return "(" + cmp1(n, where, env) + ")"


def vecx(n, where, env):
    """vector expressions: P1 + t * (P2 - P1)"""
    if isinstance(n, ast.Name) and n.id in ("P1", "P2"):
        return n.id
    if isinstance(n, ast.BinOp) and isinstance(n.op, ast.Add):
        return f"(vadd {vecx(n.left, where, env)} {vecx(n.right, where, env)})"
    if isinstance(n, ast.BinOp) and isinstance(n.op, ast.Sub):
        return f"(vsub {vecx(n.left, where, env)} {vecx(n.right, where, env)})"
    if isinstance(n, ast.BinOp) and isinstance(n.op, ast.Mult) and isinstance(n.left, ast.Name) and n.left.id in env:
        return f"(vscale {env[n.left.id]} {vecx(n.right, where, env)})"
    rej(where, n, "unsupported vector expression")


def t_line_seg(src):
    rel = "vopy/utils/utils.py"; where = f"{rel}:line_seg_pt_intersect_at_dim"
    fn = src.func(rel, "line_seg_pt_intersect_at_dim")
    if [a.arg for a in fn.args.args] != ["P1", "P2", "target_pt", "target_dim"]:
        rej(where, fn, "unexpected signature")
    b = match_stmts(LINE_SEG, clean_body(fn), where)
    t = scal(b["M_t"], where, {})
    rng = boolx(b["M_range"], where, {"t": "t"})
    rng = rng[1:-1] if rng.startswith("((") or isinstance(b["M_range"], ast.BoolOp) else rng
    pt = vecx(b["M_point"], where, {"t": "t"})
    return (f"(* {where} *)\n"
            "Definition gen_line_seg (P1 P2 target_pt : vec) (target_dim : nat) : option vec :=\n"
            f"  let t := ({t}) in\n"
            f"  if {rng} then None\n"
            f"  else let point_on_line := {pt} in Some point_on_line.\n")


def t_ext(src):
    rel = "vopy/utils/utils.py"; where = f"{rel}:is_pt_in_extended_polytope"
    fn = src.func(rel, "is_pt_in_extended_polytope")
    b = match_stmts(EXT, clean_body(fn), where)
    c = b["M_cmp"]
    if not (isinstance(c, ast.Compare) and len(c.ops) == 1 and isinstance(c.ops[0], ast.LtE) and ast.unparse(c.left) == "x" and ast.unparse(c.comparators[0]) == "y"):
        rej(where, c, "comp_func (not inverted) is not `x <= y`")
    e = b["M_edge"]
    env = {}
    def edge_scal(n):
        if isinstance(n, ast.Subscript) and ast.unparse(n.slice) == "dim_i" and isinstance(n.value, ast.Name) and n.value.id in ("vert1", "vert2", "pt"):
            v = {"vert1": "(snd (fst e))", "vert2": "(snd (snd e))", "pt": "pt"}[n.value.id]
            return f"nth dim_i {v} 0"
        rej(where, n, "unsupported edge-condition operand")
    def edge_cmp(n):
        if not (isinstance(n, ast.Compare) and len(n.ops) == 1 and isinstance(n.ops[0], (ast.LtE, ast.GtE))):
            rej(where, n, "unsupported edge condition")
        a, c2 = edge_scal(n.left), edge_scal(n.comparators[0])
        return f"Qle_bool ({a}) ({c2})" if isinstance(n.ops[0], ast.LtE) else f"Qle_bool ({c2}) ({a})"
    if not (isinstance(e, ast.BoolOp) and isinstance(e.op, ast.And) and len(e.values) == 2):
        rej(where, e, "edge condition is not a conjunction of two comparisons")
    ec = f"({edge_cmp(e.values[0])} && {edge_cmp(e.values[1])})"
    return (f"(* {where} (invert_extension = False: comp_func(x, y) = x <= y) *)\n"
            "Definition gen_index_pairs (polytope : list vec) : list ((nat * vec) * (nat * vec)) :=\n"
            "  let ip := combine (seq 0 (length polytope)) polytope in\n"
            "  flat_map (fun a => map (fun b => (a, b)) ip) ip.\n"
            "Definition gen_in_ext_polytope (pt : vec) (polytope : list vec) : bool :=\n"
            "  let dim := length (hd [] polytope) in\n"
            "  existsb (fun vert => vle vert pt) polytope ||\n"
            "  existsb (fun dim_i =>\n"
            "    let edges_of_interest :=\n"
            "      map (fun e => (snd (fst e), snd (snd e)))\n"
            "        (filter (fun e => negb (Nat.eqb (fst (fst e)) (fst (snd e))) &&\n"
            f"                          {ec})\n"
            "                (gen_index_pairs polytope)) in\n"
            "    existsb (fun edge => match gen_line_seg (fst edge) (snd edge) pt dim_i with\n"
            "                         | Some intersection => vle intersection pt\n"
            "                         | None => false\n"
            "                         end) edges_of_interest)\n"
            "    (seq 0 dim).\n")


def t_check(src):
    rel = "vopy/confidence_region.py"; where = f"{rel}:RectangularConfidenceRegion.check_dominates"
    match_stmts(CHECK, clean_body(src.func(rel, "RectangularConfidenceRegion.check_dominates")), where)
    return (f"(* {where} *)\n"
            "Definition gen_check_dominates (cone_matrix : mat) (obj1 obj2 : box) : bool :=\n"
            "  let verts1 := map (matvec cone_matrix) (vertices obj1) in\n"
            "  let verts2 := map (matvec cone_matrix) (vertices obj2) in\n"
            "  forallb (fun ref_point => gen_in_ext_polytope ref_point verts2) verts1.\n")


def run(src, out, hdr):
    f = "Gen_pess.v"
    hdr[f] = ("(* GENERATED by /verif/translator (py2coq.py, pessgen.py) from vopy/utils/utils.py and vopy/confidence_region.py — do not edit. *)\n"
              "From Coq Require Import QArith List Bool Arith.\nFrom VOPy Require Import QVec Rect Pessimistic Tables.\nImport ListNotations.\nOpen Scope Q_scope.\n\n")
    out.attempt(f, "utils.line_seg_pt_intersect_at_dim", lambda: t_line_seg(src))
    out.attempt(f, "utils.is_pt_in_extended_polytope", lambda: t_ext(src))
    out.attempt(f, "rect.check_dominates", lambda: t_check(src))
