#!/usr/bin/env python3
"""py2coq.py — fail-closed translator from the VOPy sources to Gallina.

usage: py2coq.py <repo> <outdir>

Reads <repo>/vopy/**/*.py with `ast`, translates the target functions listed in
targets.py into `Gen_*.v` files under <outdir> (definitions only, no proofs), and prints a
one-line JSON report.  A function whose body is outside the accepted subset is *rejected*:
its definition is omitted from the generated file (a comment says why), so every proof
obligation that depends on it stops compiling.  Files are rewritten only when their content
changes, so an unchanged source costs no rebuild.
"""
import ast, json, os, sys
from fractions import Fraction


class Reject(Exception):
    def __init__(self, where, reason):
        super().__init__(f"{where}: {reason}")
        self.where, self.reason = where, reason


# ---------------------------------------------------------------- source access
class Source:
    def __init__(self, repo):
        self.repo = repo
        self.cache = {}

    def module(self, rel):
        if rel not in self.cache:
            p = os.path.join(self.repo, rel)
            self.cache[rel] = ast.parse(open(p).read(), filename=p)
        return self.cache[rel]

    def func(self, rel, qual):
        """qual = 'Class.method' or 'function'"""
        mod = self.module(rel)
        parts = qual.split(".")
        body = mod.body
        node = None
        for i, name in enumerate(parts):
            node = None
            for n in body:
                if isinstance(n, (ast.FunctionDef, ast.ClassDef)) and n.name == name:
                    node = n
            if node is None:
                raise Reject(f"{rel}:{qual}", "definition not found")
            body = node.body
        if not isinstance(node, ast.FunctionDef):
            raise Reject(f"{rel}:{qual}", "not a function")
        # a decorator can change what the body means (memoisation, wrapping): only the structural ones are accepted
        for d in node.decorator_list:
            if ast.unparse(d) not in ("classmethod", "staticmethod", "property", "abstractmethod"):
                raise Reject(f"{rel}:{qual}", f"decorated with @{ast.unparse(d)[:60]}")
        return node


def is_docstring(st):
    return isinstance(st, ast.Expr) and isinstance(st.value, ast.Constant) and isinstance(st.value.value, str)


def is_logging(st):
    return (isinstance(st, ast.Expr) and isinstance(st.value, ast.Call) and isinstance(st.value.func, ast.Attribute)
            and isinstance(st.value.func.value, ast.Name) and st.value.func.value.id == "logging")


def is_roundstr(st):
    return (isinstance(st, ast.Assign) and len(st.targets) == 1 and isinstance(st.targets[0], ast.Name)
            and st.targets[0].id == "round_str")


def clean_body(fn):
    """body without docstring, logging calls and the round_str helper (no semantic effect)."""
    return [s for s in fn.body if not (is_docstring(s) or is_logging(s) or is_roundstr(s))]


# ---------------------------------------------------------------- template matching
def _is_meta(n):
    return isinstance(n, ast.Name) and n.id.startswith("M_")


def match(pat, node, b):
    """structural match of AST `node` against template `pat`; metavariables are Names M_x.
    Bindings go to dict b (a metavariable bound twice must bind equal ASTs)."""
    if _is_meta(pat):
        k = pat.id
        if k in b:
            return ast.unparse(b[k]) == ast.unparse(node)      # same expression (Load / Store context ignored)
        b[k] = node
        return True
    if isinstance(pat, ast.Expr) and _is_meta(pat.value) and pat.value.id.startswith("M_STMT"):
        b[pat.value.id] = node
        return True
    if type(pat) is not type(node):
        return False
    for f in pat._fields:
        if f in ("ctx", "type_comment", "lineno", "col_offset", "end_lineno", "end_col_offset", "kind"):
            continue
        pv, nv = getattr(pat, f, None), getattr(node, f, None)
        if isinstance(pv, list):
            if not isinstance(nv, list) or len(pv) != len(nv):
                return False
            for x, y in zip(pv, nv):
                if isinstance(x, ast.AST):
                    if not match(x, y, b):
                        return False
                elif x != y:
                    return False
        elif isinstance(pv, ast.AST):
            if not isinstance(nv, ast.AST) or not match(pv, nv, b):
                return False
        else:
            if pv != nv:
                return False
    return True


def match_stmts(template_src, stmts, where):
    pat = ast.parse(template_src).body
    b = {}
    if len(pat) != len(stmts):
        raise Reject(where, f"expected {len(pat)} statements, found {len(stmts)}")
    for p, s in zip(pat, stmts):
        if not match(p, s, b):
            raise Reject(where, f"line {getattr(s, 'lineno', '?')}: statement does not match the accepted idiom `{ast.unparse(p)[:80]}`; found `{ast.unparse(s)[:120]}`")
    return b


# ---------------------------------------------------------------- expression compiler
class ExprC:
    """Compile a Python arithmetic expression to a Gallina term (R or Q)."""

    def __init__(self, env, mode="R", where="?"):
        self.env, self.mode, self.where = env, mode, where

    def rej(self, n, why):
        raise Reject(self.where, f"line {getattr(n, 'lineno', '?')}: {why}: `{ast.unparse(n)[:100]}`")

    def num(self, v, n):
        if isinstance(v, bool):
            self.rej(n, "boolean in arithmetic")
        if isinstance(v, int):
            return str(v) if v >= 0 else f"(- {-v})"
        if isinstance(v, float):
            fr = Fraction(repr(v))
            if fr.denominator == 1:
                return str(fr.numerator)
            if self.mode == "Q":
                return f"({fr.numerator} # {fr.denominator})"
            return f"({fr.numerator} / {fr.denominator})"
        self.rej(n, "unsupported constant")

    FUN_R = {"log": "ln", "sqrt": "sqrt", "sin": "sin", "cos": "cos", "tan": "tan", "exp": "exp"}

    def c(self, n):
        if isinstance(n, ast.Constant):
            return self.num(n.value, n)
        if isinstance(n, ast.Name):
            if n.id in self.env:
                return self.env[n.id]
            self.rej(n, "unknown name")
        if isinstance(n, ast.Attribute):
            key = ast.unparse(n)
            if key in self.env:
                return self.env[key]
            if key == "np.pi" and self.mode == "R":
                return "PI"
            self.rej(n, "unknown attribute")
        if isinstance(n, ast.Subscript):
            key = ast.unparse(n)
            if key in self.env:
                return self.env[key]
            self.rej(n, "unknown subscript")
        if isinstance(n, ast.UnaryOp):
            if isinstance(n.op, ast.USub):
                return f"(- {self.c(n.operand)})"
            if isinstance(n.op, ast.UAdd):
                return self.c(n.operand)
            self.rej(n, "unsupported unary operator")
        if isinstance(n, ast.BinOp):
            if isinstance(n.op, ast.Pow):
                if isinstance(n.right, ast.Constant) and isinstance(n.right.value, int) and 0 <= n.right.value <= 8:
                    return f"({self.c(n.left)} ^ {n.right.value})"
                self.rej(n, "power with non-literal exponent")
            ops = {ast.Add: "+", ast.Sub: "-", ast.Mult: "*", ast.Div: "/"}
            if type(n.op) in ops:
                return f"({self.c(n.left)} {ops[type(n.op)]} {self.c(n.right)})"
            self.rej(n, "unsupported binary operator")
        if isinstance(n, ast.Call):
            fn = ast.unparse(n.func)
            if self.mode == "R" and fn.startswith("np.") and fn[3:] in self.FUN_R and len(n.args) == 1 and not n.keywords:
                return f"({self.FUN_R[fn[3:]]} {self.c(n.args[0])})"
            if self.mode == "R" and fn == "np.radians" and len(n.args) == 1:
                return f"({self.c(n.args[0])} * PI / 180)"
            if fn in self.env and callable(self.env[fn]):
                return self.env[fn](self, n)
            self.rej(n, "unsupported call")
        self.rej(n, "unsupported expression")


# ---------------------------------------------------------------- output
HEADER = "(* GENERATED by /verif/translator/py2coq.py from {src} — do not edit. *)\n"


class Out:
    def __init__(self, outdir):
        self.outdir = outdir
        self.files = {}
        self.rejects = []
        self.translated = []

    def add(self, fname, text):
        self.files.setdefault(fname, []).append(text)

    def attempt(self, fname, label, thunk):
        """run thunk() -> Gallina text; on Reject leave a comment instead (fail closed)."""
        try:
            txt = thunk()
            self.add(fname, txt)
            self.translated.append(label)
        except Reject as r:
            self.rejects.append({"target": label, "where": r.where, "reason": r.reason})
            safe = r.reason.replace("*)", "* )").replace("(*", "( *")
            self.add(fname, f"(* REJECTED {label}: {safe} *)\n")

    def flush(self, headers):
        changed = []
        os.makedirs(self.outdir, exist_ok=True)
        for fname, parts in self.files.items():
            text = headers.get(fname, "") + "\n".join(parts)
            p = os.path.join(self.outdir, fname)
            old = open(p).read() if os.path.exists(p) else None
            if old != text:
                with open(p, "w") as f:
                    f.write(text)
                changed.append(fname)
        return changed


def main():
    repo, outdir = sys.argv[1], sys.argv[2]
    sys.path.insert(0, os.path.dirname(os.path.abspath(__file__)))
    import targets
    src = Source(repo)
    out = Out(outdir)
    headers = targets.run(src, out)
    changed = out.flush(headers)
    print(json.dumps({"translated": out.translated, "rejects": out.rejects, "changed": changed}))
    return 0


if __name__ == "__main__":
    # run as module `py2coq` so that targets.py / algos.py / steps.py share the same Reject class
    sys.path.insert(0, os.path.dirname(os.path.abspath(__file__)))
    import py2coq
    sys.exit(py2coq.main())
