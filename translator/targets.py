"""targets.py — which VOPy functions are translated, and how (idiom recognisers)."""
import ast
from py2coq import Reject, ExprC, clean_body, match, match_stmts, HEADER

Q_HDR = ("From Coq Require Import QArith List Bool.\nFrom VOPy Require Import QVec Cone.\n"
         "Import ListNotations.\nOpen Scope Q_scope.\n\n")
R_HDR = ("From Coq Require Import Reals List.\nImport ListNotations.\nOpen Scope R_scope.\n\n")


def qlit(v, where):
    from fractions import Fraction
    if isinstance(v, bool) or not isinstance(v, (int, float)):
        raise Reject(where, f"non-numeric literal {v!r}")
    fr = Fraction(repr(v)) if isinstance(v, float) else Fraction(v)
    if fr.denominator == 1:
        return f"({fr.numerator})" if fr < 0 else str(fr.numerator)
    return f"({fr.numerator} # {fr.denominator})"


def lit_value(n, where):
    if isinstance(n, ast.Constant):
        return n.value
    if isinstance(n, ast.UnaryOp) and isinstance(n.op, ast.USub) and isinstance(n.operand, ast.Constant):
        return -n.operand.value
    raise Reject(where, f"expected numeric literal, found `{ast.unparse(n)}`")


def qmatrix_literal(n, where):
    """np.array([[..],[..]]) of numeric literals -> Gallina list (list Q)"""
    if not (isinstance(n, ast.Call) and ast.unparse(n.func) == "np.array" and len(n.args) == 1 and isinstance(n.args[0], ast.List)):
        raise Reject(where, f"expected np.array literal, found `{ast.unparse(n)[:60]}`")
    rows = []
    for r in n.args[0].elts:
        if not isinstance(r, ast.List):
            raise Reject(where, "matrix row is not a list literal")
        rows.append("[" + "; ".join(qlit(lit_value(e, where), where) for e in r.elts) + "]")
    return "[" + ";\n   ".join(rows) + "]"


# ------------------------------------------------------------------ C12: cone membership
def t_is_inside(src):
    where = "vopy/ordering_cone.py:OrderingCone.is_inside"
    fn = src.func("vopy/ordering_cone.py", "OrderingCone.is_inside")
    body = clean_body(fn)
    arg = fn.args.args[1].arg
    pre = f"""
if not isinstance({arg}, np.ndarray):
    {arg} = np.array({arg})
if {arg}.ndim == 1:
    {arg} = {arg}.reshape(1, -1)
"""
    match_stmts(pre, body[:-1], where)
    ret = body[-1]
    if not isinstance(ret, ast.Return):
        raise Reject(where, "last statement is not a return")
    v = ret.value
    ok = (isinstance(v, ast.Call) and isinstance(v.func, ast.Attribute) and v.func.attr in ("all", "any")
          and not v.args and len(v.keywords) == 1 and v.keywords[0].arg == "axis"
          and ast.unparse(v.keywords[0].value) == "-1" and isinstance(v.func.value, ast.Compare)
          and len(v.func.value.ops) == 1)
    if not ok:
        raise Reject(where, f"return expression is not `(<x @ W.T> <cmp> <const>).all(axis=-1)`: `{ast.unparse(v)}`")
    cmp_ = v.func.value
    quant = "forallb" if v.func.attr == "all" else "existsb"
    left, right = cmp_.left, cmp_.comparators[0]
    lsrc = ast.unparse(left)
    if lsrc == f"{arg} @ self.W.T":
        prod = "matvec W x"
    else:
        raise Reject(where, f"facet products are not `{arg} @ self.W.T`: `{lsrc}`")
    c = qlit(lit_value(right, where), where)
    op = type(cmp_.ops[0])
    test = {ast.GtE: f"Qle_bool {c} v", ast.Gt: f"negb (Qle_bool v {c})",
            ast.LtE: f"Qle_bool v {c}", ast.Lt: f"negb (Qle_bool {c} v)"}.get(op)
    if test is None:
        raise Reject(where, "unsupported comparison operator")
    return (f"(* {where} *)\n"
            f"Definition gen_is_inside_row (W : mat) (x : vec) : bool :=\n  {quant} (fun v => {test}) ({prod}).\n"
            f"Definition gen_is_inside (W : mat) (xs : list vec) : list bool := map (gen_is_inside_row W) xs.\n")


def vec_expr(n, env, where):
    """vector expression over names: a - b, a + b, names."""
    if isinstance(n, ast.Name) and n.id in env:
        return env[n.id]
    if isinstance(n, ast.BinOp) and isinstance(n.op, (ast.Sub, ast.Add)):
        f = "vsub" if isinstance(n.op, ast.Sub) else "vadd"
        return f"({f} {vec_expr(n.left, env, where)} {vec_expr(n.right, env, where)})"
    raise Reject(where, f"unsupported vector expression `{ast.unparse(n)}`")


def t_dominates(src):
    where = "vopy/order.py:PolyhedralConeOrder.dominates"
    fn = src.func("vopy/order.py", "PolyhedralConeOrder.dominates")
    body = clean_body(fn)
    if len(body) != 1 or not isinstance(body[0], ast.Return):
        raise Reject(where, "body is not a single return")
    v = body[0].value
    if not (isinstance(v, ast.Call) and ast.unparse(v.func) == "self.ordering_cone.is_inside" and len(v.args) == 1 and not v.keywords):
        raise Reject(where, f"not a call of self.ordering_cone.is_inside: `{ast.unparse(v)}`")
    a, b = fn.args.args[1].arg, fn.args.args[2].arg
    e = vec_expr(v.args[0], {a: "a", b: "b"}, where)
    return (f"(* {where} *)\n"
            f"Definition gen_dominates (W : mat) (a b : vec) : bool := gen_is_inside_row W {e}.\n")


def t_cone3d(src):
    where = "vopy/order.py:ConeOrder3D.__init__"
    fn = src.func("vopy/order.py", "ConeOrder3D.__init__")
    body = clean_body(fn)
    if not (len(body) == 3 and isinstance(body[0], ast.If)):
        raise Reject(where, "expected if-chain followed by cone construction")
    match_stmts("ordering_cone = OrderingCone(W)\nsuper().__init__(ordering_cone)", body[1:], where)
    out = [f"(* {where} *)"]
    node = body[0]
    seen = []
    while True:
        t = node.test
        if not (isinstance(t, ast.Compare) and ast.unparse(t.left) == "cone_type" and isinstance(t.ops[0], ast.Eq)
                and isinstance(t.comparators[0], ast.Constant)):
            raise Reject(where, f"unexpected branch test `{ast.unparse(t)}`")
        name = t.comparators[0].value
        seen.append(name)
        br = node.body
        if len(br) == 1:
            b = {}
            if not match(ast.parse("W = np.eye(M_n)").body[0], br[0], b):
                raise Reject(where, f"branch {name}: expected W = np.eye(n)")
            out.append(f"Definition cone3d_{name}_raw : mat := eye {int(lit_value(b['M_n'], where))}.")
            out.append(f"Definition cone3d_{name}_normalised : bool := false.")
        elif len(br) == 3:
            b = {}
            if not match(ast.parse("W = M_lit").body[0], br[0], b):
                raise Reject(where, f"branch {name}: expected W = np.array(...)")
            match_stmts("norm = np.linalg.norm(W[0])\nW /= norm", br[1:], where + f" branch {name}")
            out.append(f"Definition cone3d_{name}_raw : mat :=\n  {qmatrix_literal(b['M_lit'], where)}.")
            out.append(f"Definition cone3d_{name}_normalised : bool := true.  (* rows divided by the norm of row 0 *)")
        else:
            raise Reject(where, f"branch {name}: unexpected statements")
        if len(node.orelse) == 1 and isinstance(node.orelse[0], ast.If):
            node = node.orelse[0]
        else:
            if not (len(node.orelse) == 1 and isinstance(node.orelse[0], ast.Raise)):
                raise Reject(where, "final else is not a raise")
            break
    if seen != ["acute", "right", "obtuse"]:
        raise Reject(where, f"cone types {seen}")
    return "\n".join(out) + "\n"


def t_componentwise(src):
    where = "vopy/order.py:ComponentwiseOrder.__init__"
    fn = src.func("vopy/order.py", "ComponentwiseOrder.__init__")
    match_stmts("W = np.eye(dim)\nordering_cone = OrderingCone(W)\nsuper().__init__(ordering_cone)", clean_body(fn), where)
    return f"(* {where} *)\nDefinition componentwise_W (dim : nat) : mat := eye dim.\n"


def t_order_subclasses(src):
    """the bundled orders are PolyhedralConeOrder with a particular W and nothing else: no subclass may
    override dominates / get_pareto_set / get_pareto_set_naive (the theorems about the facet test and the
    Pareto routines speak about the inherited methods)"""
    where = "vopy/order.py:subclasses of PolyhedralConeOrder"
    mod = src.module("vopy/order.py")
    allowed = {"ComponentwiseOrder": {"__init__"}, "ConeTheta2DOrder": {"__init__"}, "ConeOrder3D": {"__init__"},
               "ConeOrder3DIceCream": {"__init__", "compute_ice_cream_cone"}}
    seen = []
    for n in mod.body:
        if isinstance(n, ast.ClassDef) and any(ast.unparse(b) == "PolyhedralConeOrder" for b in n.bases):
            meths = {m.name for m in n.body if isinstance(m, (ast.FunctionDef, ast.AsyncFunctionDef))}
            attrs = [t for m in n.body if isinstance(m, ast.Assign) for t in m.targets]
            if n.name not in allowed:
                raise Reject(where, f"unknown order subclass {n.name}")
            if not meths <= allowed[n.name] or attrs:
                raise Reject(where, f"{n.name} defines {sorted(meths - allowed[n.name])} / class attributes: the inherited facet test is overridden")
            seen.append(n.name)
    if sorted(seen) != sorted(allowed):
        raise Reject(where, f"order subclasses found: {seen}")
    return f"(* {where}: {', '.join(seen)} define only their constructor *)\nDefinition bundled_orders_inherit_facet_test : bool := true.\n"


# ------------------------------------------------------------------ rectangles (C09, C14)
class VecC:
    """vector expressions over Q: names, + - * (Hadamard), / literal, np.maximum / np.minimum"""

    def __init__(self, env, where):
        self.env, self.where = env, where

    def c(self, n):
        key = ast.unparse(n)
        if key in self.env:
            return self.env[key]
        if isinstance(n, ast.BinOp):
            if isinstance(n.op, ast.Div):
                c = qlit(lit_value(n.right, self.where), self.where)
                return f"(vscale (/ {c}) {self.c(n.left)})"
            f = {ast.Add: "vadd", ast.Sub: "vsub", ast.Mult: "vmul"}.get(type(n.op))
            if f:
                return f"({f} {self.c(n.left)} {self.c(n.right)})"
        if isinstance(n, ast.Call) and ast.unparse(n.func) in ("np.maximum", "np.minimum") and len(n.args) == 2 and not n.keywords:
            f = "vmaxv" if ast.unparse(n.func) == "np.maximum" else "vminv"
            return f"({f} {self.c(n.args[0])} {self.c(n.args[1])})"
        raise Reject(self.where, f"unsupported vector expression `{key[:80]}`")


def t_get_vertices(src):
    where = "vopy/utils/utils.py:hyperrectangle_get_vertices"
    fn = src.func("vopy/utils/utils.py", "hyperrectangle_get_vertices")
    lo, up = fn.args.args[0].arg, fn.args.args[1].arg
    match_stmts(f"a = [[l1, l2] for l1, l2 in zip({lo}, {up})]\n"
                "vertex_list = [element for element in itertools.product(*a)]\nreturn np.array(vertex_list)",
                clean_body(fn), where)
    return (f"(* {where} *)\nDefinition gen_vertices (lower upper : vec) : list vec := vertices (mkbox lower upper).\n")


def t_rect_is_dominated(src):
    where = "vopy/confidence_region.py:RectangularConfidenceRegion.is_dominated"
    fn = src.func("vopy/confidence_region.py", "RectangularConfidenceRegion.is_dominated")
    body = clean_body(fn)
    names = [a.arg for a in fn.args.args]            # cls, order, obj1, obj2, slackness
    if names[1:] != ["order", "obj1", "obj2", "slackness"]:
        raise Reject(where, f"unexpected parameters {names}")
    b = match_stmts("""
if np.array(slackness).size != 1 and slackness.size != len(obj1.lower):
    raise ValueError(M_msg)
verts1 = hyperrectangle_get_vertices(M_a.lower, M_a.upper)
verts2 = hyperrectangle_get_vertices(M_b.lower, M_b.upper)
for vert1 in verts1:
    for vert2 in verts2:
        if not order.dominates(M_x, M_y):
            return False
return True
""", body, where)
    ra, rb = ast.unparse(b["M_a"]), ast.unparse(b["M_b"])
    if {ra, rb} != {"obj1", "obj2"}:
        raise Reject(where, f"vertex lists built from {ra}, {rb}")
    env = {"vert1": "vert1", "vert2": "vert2", "slackness": "slack"}
    vc = VecC(env, where)
    x, y = vc.c(b["M_x"]), vc.c(b["M_y"])
    return (f"(* {where} *)\n"
            "Definition gen_rect_is_dominated (W : mat) (obj1 obj2 : box) (slack : vec) : bool :=\n"
            f"  forallb (fun vert1 => forallb (fun vert2 => gen_dominates W {x} {y})\n"
            f"                                (gen_vertices (lowers {rb}) (uppers {rb})))\n"
            f"          (gen_vertices (lowers {ra}) (uppers {ra})).\n"
            "Definition gen_rect_dom_slack_ok (size m : nat) : bool := Nat.eqb size 1 || Nat.eqb size m.\n")


def cmp2(n, env, where):
    """np.any(A <op> B) over vectors -> existsb over pairs"""
    if not (isinstance(n, ast.Call) and ast.unparse(n.func) == "np.any" and len(n.args) == 1 and isinstance(n.args[0], ast.Compare)
            and len(n.args[0].ops) == 1):
        raise Reject(where, f"expected np.any(a <op> b): `{ast.unparse(n)}`")
    c = n.args[0]
    a, b = ast.unparse(c.left), ast.unparse(c.comparators[0])
    if a not in env or b not in env:
        raise Reject(where, f"unknown operands in `{ast.unparse(n)}`")
    test = {ast.GtE: "Qle_bool y x", ast.Gt: "negb (Qle_bool x y)", ast.LtE: "Qle_bool x y", ast.Lt: "negb (Qle_bool y x)"}.get(type(c.ops[0]))
    if test is None:
        raise Reject(where, "unsupported comparison")
    return f"any2 (fun x y => {test}) {env[a]} {env[b]}"


def t_check_intersection(src):
    where = "vopy/utils/utils.py:hyperrectangle_check_intersection"
    fn = src.func("vopy/utils/utils.py", "hyperrectangle_check_intersection")
    names = [a.arg for a in fn.args.args]
    if names != ["lower1", "upper1", "lower2", "upper2"]:
        raise Reject(where, f"unexpected parameters {names}")
    b = match_stmts("if M_c1 or M_c2:\n    return False\nreturn True", clean_body(fn), where)
    env = {n: n for n in names}
    return (f"(* {where} *)\nDefinition gen_check_intersection (lower1 upper1 lower2 upper2 : vec) : bool :=\n"
            f"  negb ({cmp2(b['M_c1'], env, where)} || {cmp2(b['M_c2'], env, where)}).\n")


def t_rect_update(src):
    where = "vopy/confidence_region.py:RectangularConfidenceRegion.update"
    fn = src.func("vopy/confidence_region.py", "RectangularConfidenceRegion.update")
    b = match_stmts("""
if covariance.shape[-1] != covariance.shape[-2]:
    raise ValueError(M_msg)
std = np.sqrt(np.diag(covariance.squeeze()))
L = M_L
U = M_U
if self.intersect_iteratively:
    self.intersect(L, U)
else:
    self.lower = L
    self.upper = U
""", clean_body(fn), where)
    vc = VecC({"mean": "mean", "std": "std", "scale": "scale"}, where)
    return (f"(* {where}; std = sqrt(diag(covariance)) is an input of the model *)\n"
            f"Definition gen_rect_update_L (mean std scale : vec) : vec := {vc.c(b['M_L'])}.\n"
            f"Definition gen_rect_update_U (mean std scale : vec) : vec := {vc.c(b['M_U'])}.\n"
            "Definition gen_rect_update_intersects_when_flag : bool := true.\n")


def t_rect_intersect(src):
    where = "vopy/confidence_region.py:RectangularConfidenceRegion.intersect"
    fn = src.func("vopy/confidence_region.py", "RectangularConfidenceRegion.intersect")
    b = match_stmts("""
if hyperrectangle_check_intersection(self.lower, self.upper, lower, upper):
    self.lower = M_l
    self.upper = M_u
else:
    self.lower = lower
    self.upper = upper
""", clean_body(fn), where)
    vc = VecC({"self.lower": "slower", "self.upper": "supper", "lower": "lower", "upper": "upper"}, where)
    return (f"(* {where} *)\nDefinition gen_rect_intersect (slower supper lower upper : vec) : vec * vec :=\n"
            f"  if gen_check_intersection slower supper lower upper then ({vc.c(b['M_l'])}, {vc.c(b['M_u'])}) else (lower, upper).\n")


def t_rect_center(src):
    where = "vopy/confidence_region.py:RectangularConfidenceRegion.center"
    fn = src.func("vopy/confidence_region.py", "RectangularConfidenceRegion.center")
    body = clean_body(fn)
    if len(body) != 1 or not isinstance(body[0], ast.Return):
        raise Reject(where, "not a single return")
    vc = VecC({"self.lower": "lower", "self.upper": "upper"}, where)
    return f"(* {where} *)\nDefinition gen_rect_center (lower upper : vec) : vec := {vc.c(body[0].value)}.\n"


def t_ell_update(src):
    where = "vopy/confidence_region.py:EllipsoidalConfidenceRegion.update"
    fn = src.func("vopy/confidence_region.py", "EllipsoidalConfidenceRegion.update")
    b = match_stmts("""
if covariance.shape[-1] != covariance.shape[-2]:
    raise ValueError(M_m1)
if np.array(scale).size != 1:
    raise ValueError(M_m2)
self.center = M_c
self.sigma = M_s
self.alpha = M_a
""", clean_body(fn), where)
    got = tuple(ast.unparse(b[k]) for k in ("M_c", "M_s", "M_a"))
    if not set(got) <= {"mean", "covariance", "scale"}:
        raise Reject(where, f"assigned {got}")
    return (f"(* {where} *)\nDefinition gen_ell_update (mean : vec) (covariance : mat) (scale : Q) : vec * mat * Q :=\n"
            f"  ({got[0]}, {got[1]}, {got[2]}).\n")


def t_region_matrix(src):
    where = "vopy/utils/utils.py:hyperrectangle_get_region_matrix"
    fn = src.func("vopy/utils/utils.py", "hyperrectangle_get_region_matrix")
    match_stmts("dim = len(lower)\nregion_matrix = np.vstack((np.eye(dim), -np.eye(dim)))\n"
                "region_boundary = np.hstack((np.array(lower), -np.array(upper)))\nreturn (region_matrix, region_boundary)",
                clean_body(fn), where)
    return (f"(* {where}: ([I; -I], [lower; -upper]), i.e. M x >= b  iff  lower <= x /\\ -x >= -upper *)\n"
            "Definition gen_region_constraint (b : box) (x : vec) : Prop := inbox b x.\n")


def t_rect_is_covered(src):
    where = "vopy/confidence_region.py:RectangularConfidenceRegion.is_covered"
    fn = src.func("vopy/confidence_region.py", "RectangularConfidenceRegion.is_covered")
    b = match_stmts("""
cone_matrix = order.ordering_cone.W
m = cone_matrix.shape[1]
if np.array(slackness).size != 1 and slackness.size != m:
    raise ValueError(M_msg)
z_point = cp.Variable(m)
z_point2 = cp.Variable(m)
obj1_matrix, obj1_boundary = hyperrectangle_get_region_matrix(M_a.lower, M_a.upper)
obj2_matrix, obj2_boundary = hyperrectangle_get_region_matrix(M_b.lower, M_b.upper)
constraints = [obj1_matrix @ M_v1 >= obj1_boundary, obj2_matrix @ M_v2 >= obj2_boundary, cone_matrix @ M_e >= 0]
prob = cp.Problem(cp.Minimize(0), constraints=constraints)
try:
    prob.solve()
except cp.error.SolverError:
    prob.solve(solver=cp.SCS)
if prob.status is None or prob.status == 'optimal':
    return True
return False
""", clean_body(fn), where)
    ra, rb = ast.unparse(b["M_a"]), ast.unparse(b["M_b"])
    v1, v2 = ast.unparse(b["M_v1"]), ast.unparse(b["M_v2"])
    if {ra, rb} != {"obj1", "obj2"} or {v1, v2} != {"z_point", "z_point2"}:
        raise Reject(where, f"unexpected regions/variables {ra},{rb},{v1},{v2}")
    vc = VecC({"z_point": "z_point", "z_point2": "z_point2", "slackness": "slack"}, where)
    e = vc.c(b["M_e"])
    return (f"(* {where}: the feasibility problem posed to cvxpy (status None / 'optimal' => True) *)\n"
            "Definition gen_rect_cov_feasible (W : mat) (obj1 obj2 : box) (slack : vec) (z_point z_point2 : vec) : Prop :=\n"
            f"  gen_region_constraint {ra} {v1} /\\ gen_region_constraint {rb} {v2} /\\\n"
            f"  (forall w, In w W -> 0 <= dot w {e}).\n"
            "Definition gen_rect_cov_true_statuses : list (option nat) := [None; Some 0%nat].  (* None, 'optimal' *)\n")


def t_ds_update(src, cls, prefix):
    where = f"vopy/design_space.py:{cls}.update"
    fn = src.func("vopy/design_space.py", f"{cls}.update")
    default = "list(range(self.cardinality))" if cls == "FixedPointsDesignSpace" else "list(range(len(self.points)))"
    b = match_stmts(f"""
if indices_to_update is None:
    indices_to_update = {default}
if scale.ndim < 2:
    scale = np.repeat(np.atleast_1d(scale)[None, :], len(indices_to_update), axis=0)
elif scale.ndim != 2 or len(scale) != len(indices_to_update):
    raise ValueError(M_msg)
mus, covs = model.predict(self.points[indices_to_update])
for M_i, M_mu, M_cov, M_s in zip(M_z1, M_z2, M_z3, M_z4):
    self.confidence_regions[M_j].update(M_a1, M_a2, M_a3)
""", clean_body(fn), where)
    loopvars = [ast.unparse(b[k]) for k in ("M_i", "M_mu", "M_cov", "M_s")]
    zipped = [ast.unparse(b[k]) for k in ("M_z1", "M_z2", "M_z3", "M_z4")]
    args = [ast.unparse(b[k]) for k in ("M_a1", "M_a2", "M_a3")]
    env = dict(zip(loopvars, zipped))
    if ast.unparse(b["M_j"]) not in env or any(a not in env for a in args):
        raise Reject(where, "region index / update arguments are not the loop variables")
    q = lambda l: "[" + "; ".join(f'"{x}"' for x in l) + "]"
    return (f"(* {where}: which zipped sequence feeds the region index and update(mean, covariance, scale) *)\n"
            f"Definition {prefix}_update_region_index : string := \"{env[ast.unparse(b['M_j'])]}\".\n"
            f"Definition {prefix}_update_args : list string := {q([env[a] for a in args])}.\n"
            f"Definition {prefix}_update_predicts_on : string := \"self.points[indices_to_update]\".\n")


# ------------------------------------------------------------------ problems (C20)
def t_noisy_chol(src):
    where = "vopy/utils/utils.py:get_noisy_evaluations_chol"
    fn = src.func("vopy/utils/utils.py", "get_noisy_evaluations_chol")
    b = match_stmts("""
if cholesky_cov.ndim != 2 or means.shape[1] != cholesky_cov.shape[1]:
    raise AssertionError(M_msg)
n, d = (means.shape[0], len(cholesky_cov))
X = np.random.normal(size=(n, d))
complicated_X = np.dot(X, M_fac)
noisy_samples = means + complicated_X
return noisy_samples
""", clean_body(fn), where)
    fac = ast.unparse(b["M_fac"])
    if fac == "cholesky_cov.T":
        row = "matvec L g"            # (g L^T)_k = sum_j g_j L_kj = (L g)_k
    elif fac == "cholesky_cov":
        row = "matvec (map (transpose_col L) (seq 0 (length g))) g"   # (g L)_k = sum_j g_j L_jk = (L^T g)_k
    else:
        raise Reject(where, f"unexpected factor `{fac}`")
    return (f"(* {where}: one row of the result, for the standard-normal draw g of that row *)\n"
            f"Definition gen_noisy_row (L : mat) (f g : vec) : vec := vadd f ({row}).\n")


def t_normalize(src, name):
    where = f"vopy/utils/utils.py:{name}"
    fn = src.func("vopy/utils/utils.py", name)
    out_name = "normalized_data" if name == "normalize" else "unnormalized_data"
    b = match_stmts(f"""
if len(bounds) != data.shape[1]:
    raise ValueError(M_msg)
{out_name} = np.empty_like(data)
for i, (lower, upper) in enumerate(bounds):
    {out_name}[:, i] = M_e
return {out_name}
""", clean_body(fn), where)
    ec = ExprC({"data[:, i]": "x", "lower": "lo", "upper": "up"}, mode="Q", where=where)
    e = b["M_e"]
    # data[:, i] is a Subscript: compile by textual substitution of the column name
    class Sub(ast.NodeTransformer):
        def visit_Subscript(self, n):
            if ast.unparse(n) == "data[:, i]":
                return ast.Name(id="COL", ctx=ast.Load())
            return n
    e2 = Sub().visit(e)
    ec.env = {"COL": "x", "lower": "lo", "upper": "up"}
    return (f"(* {where}: entry of column i with bounds (lo, up) *)\n"
            f"Definition gen_{name}1 (lo up x : Q) : Q := {ec.c(e2)}.\n")


def t_decoupled_evaluate(src):
    where = "vopy/maximization_problem.py:DecoupledEvaluationProblem.evaluate"
    fn = src.func("vopy/maximization_problem.py", "DecoupledEvaluationProblem.evaluate")
    match_stmts("""
if evaluation_index is not None and (not isinstance(evaluation_index, int)) and (len(x) != len(evaluation_index)):
    raise ValueError(M_msg)
values = self.problem.evaluate(x, **evaluate_kwargs)
if evaluation_index is None:
    return values
if isinstance(evaluation_index, int):
    return values[:, evaluation_index]
evaluation_index = np.array(evaluation_index, dtype=np.int32)
return values[np.arange(len(evaluation_index)), evaluation_index]
""", clean_body(fn), where)
    return (f"(* {where} *)\n"
            "Definition gen_decoupled_select (values : list vec) (e : evidx) : option (list vec) :=\n"
            "  match e with\n  | AllObjectives => Some values\n  | OneObjective k => Some (map (fun v => [nth k v 0]) values)\n"
            "  | PerRow ks => if Nat.eqb (length ks) (length values)\n"
            "                 then Some (map (fun vk => [nth (snd vk) (fst vk) 0]) (combine values ks)) else None\n  end.\n")


def t_currin_alias(src):
    where = "vopy/maximization_problem.py:BraninCurrin._currin"
    fn = src.func("vopy/maximization_problem.py", "BraninCurrin._currin")
    body = clean_body(fn)
    binds = {}
    writes = []
    for st in body:
        if isinstance(st, ast.Assign) and len(st.targets) == 1 and isinstance(st.targets[0], ast.Name):
            v = ast.unparse(st.value)
            binds[st.targets[0].id] = v
        elif isinstance(st, ast.AugAssign) and isinstance(st.target, ast.Subscript):
            writes.append(ast.unparse(st.target.value))
        elif isinstance(st, ast.Assign) and isinstance(st.targets[0], ast.Subscript):
            writes.append(ast.unparse(st.targets[0].value))
    def is_view(name):
        v = binds.get(name, "")
        return v.startswith("X[") and ".copy()" not in v
    through = any(w == "X" or is_view(w) for w in writes)
    return (f"(* {where}: does an in-place write reach the caller's array through a view of the argument? *)\n"
            f"Definition gen_currin_writes_through_argument : bool := {'true' if through else 'false'}.\n")


def run(src, out):
    hdr = {}
    f = "Gen_order.v"
    hdr[f] = HEADER.format(src="vopy/ordering_cone.py, vopy/order.py") + Q_HDR
    out.attempt(f, "is_inside", lambda: t_is_inside(src))
    out.attempt(f, "dominates", lambda: t_dominates(src))
    out.attempt(f, "cone3d", lambda: t_cone3d(src))
    out.attempt(f, "componentwise", lambda: t_componentwise(src))
    out.attempt(f, "order_subclasses", lambda: t_order_subclasses(src))
    f = "Gen_region.v"
    hdr[f] = (HEADER.format(src="vopy/confidence_region.py, vopy/utils/utils.py")
              + "From Coq Require Import QArith Qminmax List Bool.\nFrom VOPy Require Import QVec Cone Rect.\nFrom VOPyGen Require Import Gen_order.\n"
              "Import ListNotations.\nOpen Scope Q_scope.\n\n")
    out.attempt(f, "hyperrectangle_get_vertices", lambda: t_get_vertices(src))
    out.attempt(f, "rect_is_dominated", lambda: t_rect_is_dominated(src))
    out.attempt(f, "hyperrectangle_check_intersection", lambda: t_check_intersection(src))
    out.attempt(f, "rect_update", lambda: t_rect_update(src))
    out.attempt(f, "rect_intersect", lambda: t_rect_intersect(src))
    out.attempt(f, "rect_center", lambda: t_rect_center(src))
    out.attempt(f, "ell_update", lambda: t_ell_update(src))
    out.attempt(f, "hyperrectangle_get_region_matrix", lambda: t_region_matrix(src))
    out.attempt(f, "rect_is_covered", lambda: t_rect_is_covered(src))
    f = "Gen_space.v"
    hdr[f] = (HEADER.format(src="vopy/design_space.py") + "From Coq Require Import String List.\nImport ListNotations.\nOpen Scope string_scope.\n\n")
    out.attempt(f, "FixedPointsDesignSpace.update", lambda: t_ds_update(src, "FixedPointsDesignSpace", "fixed"))
    out.attempt(f, "AdaptivelyDiscretizedDesignSpace.update", lambda: t_ds_update(src, "AdaptivelyDiscretizedDesignSpace", "adaptive"))
    f = "Gen_problem.v"
    hdr[f] = (HEADER.format(src="vopy/utils/utils.py, vopy/maximization_problem.py")
              + "From Coq Require Import QArith List Bool.\nFrom VOPy Require Import QVec Problem.\nImport ListNotations.\nOpen Scope Q_scope.\n\n")
    out.attempt(f, "get_noisy_evaluations_chol", lambda: t_noisy_chol(src))
    out.attempt(f, "normalize", lambda: t_normalize(src, "normalize"))
    out.attempt(f, "unnormalize", lambda: t_normalize(src, "unnormalize"))
    out.attempt(f, "DecoupledEvaluationProblem.evaluate", lambda: t_decoupled_evaluate(src))
    out.attempt(f, "BraninCurrin._currin", lambda: t_currin_alias(src))
    import algos
    algos.run(src, out, hdr)
    import steps
    steps.run(src, out, hdr)
    import formulas
    formulas.run(src, out, hdr)
    import auer
    auer.run(src, out, hdr)
    import childgen
    childgen.run(src, out, hdr)
    import paretogen
    paretogen.run(src, out, hdr)
    import pessgen
    pessgen.run(src, out, hdr)
    import optgen
    optgen.run(src, out, hdr)
    import gpwgen
    gpwgen.run(src, out, hdr)
    import ellgen
    ellgen.run(src, out, hdr)
    import empgen
    empgen.run(src, out, hdr)
    import acqgen
    acqgen.run(src, out, hdr)
    import extragen
    extragen.run(src, out, hdr)
    import extragen2
    extragen2.run(src, out, hdr)
    import extragen3
    extragen3.run(src, out, hdr)
    import extragen4
    extragen4.run(src, out, hdr)
    return hdr
